---------------------------- MODULE Conf_Parser ----------------------------
(***************************************************************************)
(* Conformance of the real parser/evaluator/printer with PolicyParser.     *)
(* Each case was recorded from the real code (harness/checks): the         *)
(* abstract token sequence that was rendered to rule text (the code's own  *)
(* tokenizer is never trusted to tell us what the input was), and what the *)
(* code did with it.  TLC computes what the specification allows.          *)
(*                                                                         *)
(* case kinds                                                              *)
(*  "text": toks, raised (0/1), table (allowing assignments, each a list   *)
(*          of leaf numbers), pr (token image of str(tree)), pr2 (token    *)
(*          image of str(parse(str(tree)))), table2 (table of the          *)
(*          re-parsed tree), blank (1: text had no token at all)           *)
(*  "list": outer (list of lists of check tokens), raised, table, pr, pr2, *)
(*          table2                                                         *)
(*  "value": vclass (class of a non-string rule value), outcome            *)
(***************************************************************************)
EXTENDS PolicyParser, TLC, Json, IOUtils

Cases == JsonDeserialize(IOEnv.VERIF_CASES)

VARIABLES cid, ph, ok
vars == <<cid, ph, ok>>

ToSet(s) == {s[i] : i \in 1..Len(s)}
ObsTable(tb) == {ToSet(tb[i]) : i \in 1..Len(tb)}

\* C15 on a recorded print, relative to the rule as the code parsed it: the
\* print is a sentence for the spec's own parser with the decisions the code
\* gives the rule, and printing the re-parsed rule is a fixed point
PrintOK(c, lv) ==
  /\ c.raised = 0
  /\ c.pr2 = c.pr
  /\ ObsTable(c.table2) = ObsTable(c.table)
  /\ RefAccepts(c.pr)
  /\ Table(RefTree(c.pr), lv) = ObsTable(c.table)

\* "want" selects the property under which the case is judged
\*   c01: sentences decide as the grammar says      (non-sentences: no claim)
\*   c02: non-sentences deny everything, never raise (sentences: no claim)
\*   c15: print / re-parse round trip
TextOK(c) ==
  LET lv == LeavesOf(c.toks) IN
  IF c.empty = 1
  THEN \* the empty string is the always-allow rule (C01, C02)
       c.raised = 0 /\ ObsTable(c.table) = {{}}
  ELSE IF c.blank = 1
  THEN \* text without any token: C02 is explicit that only the EMPTY string (and [] and @)
       \* mean always allow, so blanks alone deny; C01 / C15 make no claim about it
       c.raised = 0 /\ (c.want = "c02" => ObsTable(c.table) = {} /\ c.extra_allow = 0)
  ELSE CASE c.want = "c01" -> (RefAccepts(c.toks) => c.raised = 0 /\ ObsTable(c.table) = RefTable(c.toks))
         [] c.want = "c02" -> /\ c.raised = 0      \* loading/evaluating a string never fails
                              /\ (~RefAccepts(c.toks) => ObsTable(c.table) = {} /\ c.extra_allow = 0)
         [] c.want = "c15" -> PrintOK(c, lv)

ListLeaves(outer) == UNION {LeavesOf(outer[i]) : i \in 1..Len(outer)}
ListOK(c) ==
  LET lv == ListLeaves(c.outer)
      expect == {asg \in SUBSET lv : ListAllows(c.outer, asg)} IN
  CASE c.want = "c15" -> PrintOK(c, lv)
    [] OTHER -> /\ c.raised = 0
                /\ ObsTable(c.table) = expect
                /\ Table(ListTree(c.outer), lv) = expect      \* operational = declarative

\* C02: which outcomes a rule value of a given class may have
AllowClasses == {"empty_string", "empty_list", "at_string", "at_list"}
ValueOK(c) ==
  IF c.vclass \in AllowClasses THEN c.outcome = "allow"
  ELSE c.outcome \in {"rejected", "deny"}

\* C15 for a whole rule set: Rules.__str__ dumps JSON name -> printed rule,
\* the always-allow check as the empty string; loading the dump gives the
\* same decisions.  One case per rule of the set.
\*   dumped: token image of the dumped string, table: decisions before the
\*   dump, table2: after load(dump); nleaves: number of leaves of the set
DumpOK(c) ==
  LET lv == 1..c.nleaves IN
  /\ c.raised = 0
  /\ c.present = 1                                  \* the name survived
  /\ ObsTable(c.table2) = ObsTable(c.table)
  /\ IF c.dumped = <<>> THEN ObsTable(c.table) = SUBSET lv      \* "" only for always-allow
     ELSE RefAccepts(c.dumped) /\ Table(RefTree(c.dumped), lv) = ObsTable(c.table)

\* RuleDefault.__eq__ (same name, same printed check) only for rules that
\* decide identically
EqOK(c) == c.eq = 1 => ObsTable(c.tableA) = ObsTable(c.tableB)

Verdict(c) == CASE c.kind = "text" -> TextOK(c)
                [] c.kind = "list" -> ListOK(c)
                [] c.kind = "value" -> ValueOK(c)
                [] c.kind = "dump" -> DumpOK(c)
                [] c.kind = "eq" -> EqOK(c)
                \* C02: a rule value means the same whatever else the loaded document holds
                [] c.kind = "ctx" -> c.alone = c.indoc /\ c.alone # "crash"

Init == cid \in 1..Len(Cases) /\ ph = 0 /\ ok = TRUE
Next == ph = 0 /\ ph' = 1 /\ ok' = Verdict(Cases[cid]) /\ UNCHANGED cid
Spec == Init /\ [][Next]_vars
Conforms == ok
=============================================================================
