------------------------------- MODULE EvalSS -------------------------------
(***************************************************************************)
(* Small-step evaluation of a check tree (_checks._check and the __call__  *)
(* methods of And/Or/Not/RuleCheck) as a control/continuation machine, one *)
(* action per step the code takes:                                         *)
(*    EvalLeaf  EnterNot  EnterAnd  EnterOr  FollowRule  Return  FinishStep    *)
(* FollowRule looks the name up in the rule store at evaluation time.      *)
(* Used for C13: when validation reports nothing, evaluation TERMINATES    *)
(* (a liveness property, checked by TLC under weak fairness), the          *)
(* reference depth stays within the number of names, and the result is     *)
(* the closed-form denotation used everywhere else (PolicyEval!Den).       *)
(***************************************************************************)
EXTENDS Validate

CONSTANTS NNames, Pool

VARIABLES rules,     \* the rule set (fixed during a behaviour)
          root,      \* name being enforced
          truth,     \* does the credentials' role satisfy the leaf check?
          ctrl,      \* <<"eval", tree>> or <<"ret", BOOLEAN>>
          kont,      \* continuation stack
          done

vars == <<rules, root, truth, ctrl, kont, done>>

Nm(i) == "n" \o ToString(i)
AllNames == {Nm(i) : i \in 1..NNames}
Targets == AllNames \cup {"zz"}
L == [k |-> "role", parts |-> << [k |-> "lit", s |-> <<114>>] >>]
Ref(n) == [k |-> "rule", name |-> n]
NotT(a) == [k |-> "not", a |-> a]
AndT(a, b) == [k |-> "and", as |-> <<a, b>>]
OrT(a, b) == [k |-> "or", as |-> <<a, b>>]
Bodies ==
  {L} \cup {Ref(x) : x \in Targets} \cup {NotT(Ref(x)) : x \in Targets}
  \cup {AndT(Ref(x), Ref(y)) : x, y \in AllNames}
  \cup {OrT(L, Ref(x)) : x \in Targets}
  \cup (IF Pool = "full" THEN {AndT(L, NotT(Ref(x))) : x \in Targets} \cup {OrT(AndT(Ref(x), L), NotT(Ref(y))) : x, y \in AllNames}
        ELSE {OrT(AndT(Ref(x), L), NotT(Ref(x))) : x \in AllNames})

\* only rule sets for which validation reports nothing (by the independent analysis)
Init == /\ \E f \in [1..NNames -> Bodies] : rules = [i \in 1..NNames |-> <<Nm(i), f[i]>>]
        /\ CheckRulesDecl(rules)
        /\ root \in AllNames /\ truth \in BOOLEAN
        /\ ctrl = <<"eval", Body(rules, root)>> /\ kont = <<>> /\ done = FALSE

Tree == ctrl[2]
Push(k) == kont' = <<k>> \o kont
Same == UNCHANGED <<rules, root, truth, done>>

EvalLeaf   == ctrl[1] = "eval" /\ Tree.k = "role" /\ ctrl' = <<"ret", truth>> /\ UNCHANGED kont /\ Same
EnterNot   == ctrl[1] = "eval" /\ Tree.k = "not" /\ ctrl' = <<"eval", Tree.a>> /\ Push(<<"not">>) /\ Same
EnterAnd   == ctrl[1] = "eval" /\ Tree.k = "and" /\ ctrl' = <<"eval", Tree.as[1]>> /\ Push(<<"and", Tail(Tree.as)>>) /\ Same
EnterOr    == ctrl[1] = "eval" /\ Tree.k = "or" /\ ctrl' = <<"eval", Tree.as[1]>> /\ Push(<<"or", Tail(Tree.as)>>) /\ Same
FollowRule == /\ ctrl[1] = "eval" /\ Tree.k = "rule"
              /\ IF Defined(rules, Tree.name)
                 THEN ctrl' = <<"eval", Body(rules, Tree.name)>> /\ Push(<<"rule", Tree.name>>)
                 ELSE ctrl' = <<"ret", FALSE>> /\ UNCHANGED kont          \* KeyError: fail closed
              /\ Same
Return     == /\ ctrl[1] = "ret" /\ Len(kont) > 0
              /\ LET k == kont[1]
                     v == ctrl[2]
                     rest == Tail(kont) IN
                 CASE k[1] = "not"  -> ctrl' = <<"ret", ~v>> /\ kont' = rest
                   [] k[1] = "rule" -> ctrl' = ctrl /\ kont' = rest
                   [] k[1] = "and"  -> IF ~v THEN ctrl' = <<"ret", FALSE>> /\ kont' = rest
                                       ELSE IF Len(k[2]) = 0 THEN ctrl' = <<"ret", TRUE>> /\ kont' = rest
                                       ELSE ctrl' = <<"eval", k[2][1]>> /\ kont' = << <<"and", Tail(k[2])>> >> \o rest
                   [] k[1] = "or"   -> IF v THEN ctrl' = <<"ret", TRUE>> /\ kont' = rest
                                       ELSE IF Len(k[2]) = 0 THEN ctrl' = <<"ret", FALSE>> /\ kont' = rest
                                       ELSE ctrl' = <<"eval", k[2][1]>> /\ kont' = << <<"or", Tail(k[2])>> >> \o rest
              /\ Same
FinishStep     == ctrl[1] = "ret" /\ Len(kont) = 0 /\ ~done /\ done' = TRUE /\ UNCHANGED <<rules, root, truth, ctrl, kont>>

Next == EvalLeaf \/ EnterNot \/ EnterAnd \/ EnterOr \/ FollowRule \/ Return \/ FinishStep
Spec == Init /\ [][Next]_vars /\ WF_vars(Next)

\* C13: nothing reported => evaluating any rule terminates
Terminates == <>done
\* the names being followed right now never repeat, so at most NNames of them
RefDepth == Cardinality({i \in 1..Len(kont) : kont[i][1] = "rule"})
DepthBounded == RefDepth <= NNames
NoRepeat == \A i, j \in 1..Len(kont) : (i # j /\ kont[i][1] = "rule" /\ kont[j][1] = "rule") => kont[i][2] # kont[j][2]
\* the machine computes the denotation
Dict(es) == [t |-> "d", s |-> <<0>>, e |-> es]
Scalar(s) == [t |-> "s", s |-> s, y |-> 1]
List(es) == [t |-> "l", s |-> <<0, 0>>, e |-> es]
Env == [target |-> Dict(<<>>),
        creds |-> IF truth THEN Dict(<< <<(<<114, 111, 108, 101, 115>>), List(<<Scalar(<<114>>)>>)>> >>) ELSE Dict(<<>>),
        rules |-> rules, dflt |-> [t |-> "unset"], lowmap |-> <<>>, loose |-> FALSE,
        http |-> [fault |-> "none", body |-> <<>>], cur |-> ""]
ResultIsDenotation == done => ctrl[2] = Den(Body(rules, root), Env, NNames + 1)
=============================================================================
