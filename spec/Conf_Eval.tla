----------------------------- MODULE Conf_Eval -----------------------------
(***************************************************************************)
(* Conformance of real Enforcer.enforce / authorize executions with        *)
(* PolicyEval.  A case records the rule store, configuration, the call,    *)
(* target and credentials (encoded by harness/ev.py) and the normalised    *)
(* outcome observed from the real code.                                    *)
(*                                                                         *)
(*  kind "enforce": st, call, target, creds, lowmap, http, obs, checklog   *)
(*  kind "pair"   : a (do_raise off) and b (do_raise on) observed          *)
(*                  outcomes for one input (C07)                           *)
(***************************************************************************)
EXTENDS PolicyEval, Json, IOUtils

Cases == JsonDeserialize(IOEnv.VERIF_CASES)

VARIABLES cid, ph, ok
vars == <<cid, ph, ok>>

EnvOf(c, loose) == [target |-> c.target, creds |-> c.creds, rules |-> c.st.rules, dflt |-> c.st.dflt,
                    lowmap |-> c.lowmap, loose |-> loose, http |-> c.http, cur |-> ""]

Match(c, exp) ==
  /\ c.obs.o = exp.o
  /\ c.obs.cls = exp.cls
  /\ (exp.o = "ret" => (c.obs.v = 1) = exp.v)
  /\ (c.checklog = 1 => c.obs.log = exp.log)
  \* PolicyNotAuthorized names the policy; a custom class gets the caller's arguments
  /\ (exp.cls = "PolicyNotAuthorized" => c.obs.named = 1)
  /\ (exp.cls = "Custom" => c.obs.argsok = 1)
  \* the caller's target is never modified
  /\ c.obs.target_unchanged = 1

\* the operational evaluator and the declarative denotation agree whenever
\* evaluation completes normally (design sanity, also checked by the MC configs)
OpIsDecl(c, loose) ==
  LET env == EnvOf(c, loose)
      t == IF c.call.by = "check" THEN c.call.tree
           ELSE IF Lookup(c.st.rules, c.st.dflt, c.call.name).found THEN Lookup(c.st.rules, c.st.dflt, c.call.name).tree
           ELSE [k |-> "F"]
      e == Ev(t, env, Fuel)
  IN e.x = "" => e.r = Den(t, env, Fuel)

EnforceOK(c) == \E loose \in BOOLEAN : Match(c, Enforce(c.call, c.st, EnvOf(c, loose))) /\ OpIsDecl(c, loose)

\* C07: with do_raise off the result is falsy exactly when do_raise on raises
\* (an exception that does not depend on the mode - unregistered name, bad
\* credentials object - is raised in both)
PairOK(c) == IF c.a.o = "raise" THEN c.b.o = "raise" /\ c.b.cls = c.a.cls
             ELSE (c.a.v = 0) <=> (c.b.o = "raise")

\* C06: the same query on a rule set and on the set with one reference inlined
SameOK(c) == c.a.o = c.b.o /\ c.a.v = c.b.v /\ c.a.cls = c.b.cls

\* C16: what the remote server was sent.  reqs: one record per request seen by
\* the transport stub: url (text), rule (policy name, "" = null), target and
\* creds (structural JSON encodings decoded from the payload), enc (content
\* type actually used).  jtarget/jcreds: the same encoding of the values the
\* caller passed; opaque objects at the top level of the target are blanked.
EmptyDict == [t |-> "d", e |-> <<>>]
BlankTop(tv) == [tv EXCEPT !.e = [i \in 1..Len(tv.e) |-> IF tv.e[i][2].t = "o" THEN <<tv.e[i][1], EmptyDict>> ELSE tv.e[i]]]
ReqsOK(c, exp) ==
  LET sent == SelectSeq(exp.log, LAMBDA en : en[1] = "http") IN
  /\ (c.tlsfault = 0 => Len(c.reqs) = Len(sent))
  /\ (c.tlsfault = 1 => Len(c.reqs) = 0)
  /\ \A i \in 1..Len(c.reqs) :
        /\ c.reqs[i].url = sent[i][3]
        /\ c.reqs[i].scheme = sent[i][2]
        /\ c.reqs[i].rule = sent[i][4]
        /\ c.reqs[i].enc = c.enc
        /\ c.reqs[i].creds = c.jcreds
        /\ (c.cmp_target = 1 => c.reqs[i].target = BlankTop(c.jtarget))
\* (a target holding an opaque object below its top level cannot be
\* serialised; the statement does not say what happens then: the request may
\* fail before anything is sent, but the caller's target stays untouched)
HttpOK(c) == \E loose \in BOOLEAN :
   LET exp == Enforce(c.call, c.st, EnvOf(c, loose)) IN
   IF c.nested_opaque = 1 /\ c.obs.o = "raise" /\ Len(SelectSeq(exp.log, LAMBDA en : en[1] = "http")) > 0
   THEN c.obs.target_unchanged = 1 /\ Len(c.reqs) = 0
   ELSE
   /\ c.obs.o = exp.o
   /\ (exp.o = "ret" => (c.obs.v = 1) = exp.v)
   /\ (exp.o = "raise" => c.obs.cls = exp.cls)
   /\ c.obs.target_unchanged = 1
   /\ ReqsOK(c, exp)

Verdict(c) == CASE c.kind = "enforce" -> EnforceOK(c)
                [] c.kind = "http" -> HttpOK(c)
                [] c.kind = "pair" -> PairOK(c)
                [] c.kind = "same" -> SameOK(c)

Init == cid \in 1..Len(Cases) /\ ph = 0 /\ ok = TRUE
Next == ph = 0 /\ ph' = 1 /\ ok' = Verdict(Cases[cid]) /\ UNCHANGED cid
Spec == Init /\ [][Next]_vars
Conforms == ok
=============================================================================
