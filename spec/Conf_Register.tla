--------------------------- MODULE Conf_Register ---------------------------
EXTENDS Register, Sequences, Json, IOUtils
Cases == JsonDeserialize(IOEnv.VERIF_CASES)
VARIABLES cid, ph, ok
vars == <<cid, ph, ok>>
Init == cid \in 1..Len(Cases) /\ ph = 0 /\ ok = TRUE
Next == ph = 0 /\ ph' = 1 /\ ok' = (Cases[cid].outcome = RegisterOutcome(Cases[cid])) /\ UNCHANGED cid
Spec == Init /\ [][Next]_vars
Conforms == ok
=============================================================================
