--------------------------- MODULE PolicyParser ---------------------------
(***************************************************************************)
(* The rule language of oslo.policy (oslo_policy/_parser.py).              *)
(*                                                                         *)
(* Two independent descriptions of the same language live here:            *)
(*                                                                         *)
(*  1. the OPERATIONAL one - the greedy shift-reduce machine exactly as    *)
(*     ParseState implements it: one Shift action per token and one action *)
(*     per @reducer method, with the code's Finish/fail-closed rule;       *)
(*  2. the DECLARATIVE one - RefParse, a recursive-descent denotation of   *)
(*     the documented grammar (parentheses > not > and > or), written      *)
(*     without reference to the reducers.  It is the oracle of C01/C02.    *)
(*                                                                         *)
(* A token is an integer code:                                             *)
(*   0 "("   1 ")"   2 and   3 or   4 not   5 quoted string                *)
(*   6 "@"   7 "!"   8 a check without colon / unknown kind (acts as "!")  *)
(*   10+i    check number i (an opaque leaf whose truth comes from the     *)
(*           credentials; i >= 0)                                          *)
(*                                                                         *)
(* Trees are tagged tuples:                                                *)
(*   <<"T">> <<"F">> <<"leaf", i>> <<"not", t>> <<"and", <<t..>>>>         *)
(*   <<"or", <<t..>>>>                                                     *)
(***************************************************************************)
EXTENDS Naturals, Sequences, FiniteSets

LP == 0  RP == 1  AND == 2  OR == 3  NOT == 4  STR == 5
TRUE_TOK == 6  FALSE_TOK == 7  BAD_TOK == 8
LEAF0 == 10

IsCheckTok(t) == t >= 6

TreeT == <<"T">>
TreeF == <<"F">>
Leaf(i) == <<"leaf", i>>
Not(t) == <<"not", t>>
And(ts) == <<"and", ts>>
Or(ts) == <<"or", ts>>

\* the check object _parse_check builds for a check token
CheckTree(t) == IF t = TRUE_TOK THEN TreeT
                ELSE IF t = FALSE_TOK \/ t = BAD_TOK THEN TreeF
                ELSE Leaf(t - LEAF0)

(***************************************************************************)
(* Evaluation of a tree under an assignment (the set of true leaves).      *)
(* AndCheck/OrCheck.__call__: all / any, in order (order is unobservable   *)
(* for side-effect-free leaves).                                           *)
(***************************************************************************)
RECURSIVE Eval(_, _)
Eval(t, asg) ==
  CASE t[1] = "T"    -> TRUE
    [] t[1] = "F"    -> FALSE
    [] t[1] = "leaf" -> t[2] \in asg
    [] t[1] = "not"  -> ~Eval(t[2], asg)
    [] t[1] = "and"  -> \A i \in 1..Len(t[2]) : Eval(t[2][i], asg)
    [] t[1] = "or"   -> \E i \in 1..Len(t[2]) : Eval(t[2][i], asg)

RECURSIVE Size(_)
Size(t) ==
  CASE t[1] \in {"T", "F", "leaf"} -> 1
    [] t[1] = "not" -> 1 + Size(t[2])
    [] OTHER -> LET RECURSIVE S(_)
                    S(k) == IF k = 0 THEN 0 ELSE Size(t[2][k]) + S(k - 1)
                IN 1 + S(Len(t[2]))

(***************************************************************************)
(* 1. The shift-reduce machine.                                            *)
(* A stack entry is [k |-> kind, v |-> tree]; kinds are the code's token   *)
(* names.  Entries without a value carry TreeF as filler.                  *)
(***************************************************************************)
KindOf(t) == CASE t = LP -> "(" [] t = RP -> ")" [] t = AND -> "and"
               [] t = OR -> "or" [] t = NOT -> "not" [] t = STR -> "string"
               [] OTHER -> "check"
Entry(t) == [k |-> KindOf(t), v |-> IF IsCheckTok(t) THEN CheckTree(t) ELSE TreeF]

Kinds(st) == [i \in 1..Len(st) |-> st[i].k]
Suffix(st, n) == SubSeq(st, Len(st) - n + 1, Len(st))
Matches(st, pat) == Len(st) >= Len(pat) /\ Kinds(Suffix(st, Len(pat))) = pat
Replace(st, n, e) == Append(SubSeq(st, 1, Len(st) - n), e)
Top(st, k) == st[Len(st) - k]           \* k = 0 is the top of the stack

\* The @reducer methods, in the order the metaclass collects them.
WrapPats == {<<"(", "check", ")">>, <<"(", "and_expr", ")">>, <<"(", "or_expr", ")">>}
CanWrap(st)      == \E p \in WrapPats : Matches(st, p)
DoWrap(st)       == Replace(st, 3, [k |-> "check", v |-> Top(st, 1).v])

CanMakeAnd(st)   == Matches(st, <<"check", "and", "check">>)
DoMakeAnd(st)    == Replace(st, 3, [k |-> "and_expr", v |-> And(<<Top(st, 2).v, Top(st, 0).v>>)])

CanMixOrAnd(st)  == Matches(st, <<"or_expr", "and", "check">>)
DoMixOrAnd(st)   ==
  LET orv   == Top(st, 2).v[2]                     \* children of the or node
      last  == orv[Len(orv)]
      rest  == SubSeq(orv, 1, Len(orv) - 1)
      chk   == Top(st, 0).v
      andv  == IF last[1] = "and" THEN And(Append(last[2], chk))
               ELSE And(<<last, chk>>)
  IN Replace(st, 3, [k |-> "or_expr", v |-> Or(Append(rest, andv))])

CanExtendAnd(st) == Matches(st, <<"and_expr", "and", "check">>)
DoExtendAnd(st)  == Replace(st, 3, [k |-> "and_expr", v |-> And(Append(Top(st, 2).v[2], Top(st, 0).v))])

CanMakeOr(st)    == Matches(st, <<"check", "or", "check">>) \/ Matches(st, <<"and_expr", "or", "check">>)
DoMakeOr(st)     == Replace(st, 3, [k |-> "or_expr", v |-> Or(<<Top(st, 2).v, Top(st, 0).v>>)])

CanExtendOr(st)  == Matches(st, <<"or_expr", "or", "check">>)
DoExtendOr(st)   == Replace(st, 3, [k |-> "or_expr", v |-> Or(Append(Top(st, 2).v[2], Top(st, 0).v))])

CanMakeNot(st)   == Matches(st, <<"not", "check">>)
DoMakeNot(st)    == Replace(st, 2, [k |-> "check", v |-> Not(Top(st, 0).v)])

CanReduce(st) == CanWrap(st) \/ CanMakeAnd(st) \/ CanMixOrAnd(st) \/ CanExtendAnd(st)
                 \/ CanMakeOr(st) \/ CanExtendOr(st) \/ CanMakeNot(st)

\* ParseState.reduce: first matching reducer in collection order
ReduceOnce(st) ==
  CASE CanWrap(st)      -> DoWrap(st)
    [] CanMakeAnd(st)   -> DoMakeAnd(st)
    [] CanMixOrAnd(st)  -> DoMixOrAnd(st)
    [] CanExtendAnd(st) -> DoExtendAnd(st)
    [] CanMakeOr(st)    -> DoMakeOr(st)
    [] CanExtendOr(st)  -> DoExtendOr(st)
    [] CanMakeNot(st)   -> DoMakeNot(st)

RECURSIVE ReduceAll(_)
ReduceAll(st) == IF CanReduce(st) THEN ReduceAll(ReduceOnce(st)) ELSE st

\* ParseState.shift
ShiftTok(st, t) == ReduceAll(Append(st, Entry(t)))

RECURSIVE RunFrom(_, _, _)
RunFrom(st, toks, i) == IF i > Len(toks) THEN st ELSE RunFrom(ShiftTok(st, toks[i]), toks, i + 1)

FinalStack(toks) == RunFrom(<<>>, toks, 1)

\* ParseState.result + _parse_text_rule's fail-closed handler
StackAccepts(st) == Len(st) = 1 /\ st[1].k \in {"check", "and_expr", "or_expr"}
StackResult(st)  == IF StackAccepts(st) THEN st[1].v ELSE TreeF

MachineAccepts(toks) == StackAccepts(FinalStack(toks))
MachineTree(toks)    == StackResult(FinalStack(toks))

(***************************************************************************)
(* 2. The documented grammar, by recursive descent.                        *)
(*      expr  ::= term  ("or"  term)*                                      *)
(*      term  ::= fact  ("and" fact)*                                      *)
(*      fact  ::= "not" fact | atom                                        *)
(*      atom  ::= check | "(" expr ")"                                     *)
(* A parse result is [ok, t, p]: success flag, tree, next position.        *)
(***************************************************************************)
Fail == [ok |-> FALSE, t |-> TreeF, p |-> 0]

RECURSIVE PExpr(_, _), PTerm(_, _), PFact(_, _), PAtom(_, _), POrTail(_, _, _), PAndTail(_, _, _)

PAtom(toks, p) ==
  IF p > Len(toks) THEN Fail
  ELSE IF IsCheckTok(toks[p]) THEN [ok |-> TRUE, t |-> CheckTree(toks[p]), p |-> p + 1]
  ELSE IF toks[p] = LP THEN
         LET r == PExpr(toks, p + 1)
         IN IF r.ok /\ r.p <= Len(toks) /\ toks[r.p] = RP
            THEN [ok |-> TRUE, t |-> r.t, p |-> r.p + 1] ELSE Fail
  ELSE Fail

PFact(toks, p) ==
  IF p <= Len(toks) /\ toks[p] = NOT
  THEN LET r == PFact(toks, p + 1)
       IN IF r.ok THEN [ok |-> TRUE, t |-> Not(r.t), p |-> r.p] ELSE Fail
  ELSE PAtom(toks, p)

PAndTail(toks, acc, p) ==
  IF p <= Len(toks) /\ toks[p] = AND
  THEN LET r == PFact(toks, p + 1)
       IN IF r.ok THEN PAndTail(toks, Append(acc, r.t), r.p) ELSE Fail
  ELSE [ok |-> TRUE, t |-> IF Len(acc) = 1 THEN acc[1] ELSE And(acc), p |-> p]

PTerm(toks, p) ==
  LET r == PFact(toks, p) IN IF r.ok THEN PAndTail(toks, <<r.t>>, r.p) ELSE Fail

POrTail(toks, acc, p) ==
  IF p <= Len(toks) /\ toks[p] = OR
  THEN LET r == PTerm(toks, p + 1)
       IN IF r.ok THEN POrTail(toks, Append(acc, r.t), r.p) ELSE Fail
  ELSE [ok |-> TRUE, t |-> IF Len(acc) = 1 THEN acc[1] ELSE Or(acc), p |-> p]

PExpr(toks, p) ==
  LET r == PTerm(toks, p) IN IF r.ok THEN POrTail(toks, <<r.t>>, r.p) ELSE Fail

RefParse(toks) == LET r == PExpr(toks, 1)
                  IN IF r.ok /\ r.p = Len(toks) + 1 THEN r ELSE Fail
RefAccepts(toks) == RefParse(toks).ok
\* a string that is not a sentence denies for everything (C02)
RefTree(toks) == IF RefAccepts(toks) THEN RefParse(toks).t ELSE TreeF

LeavesOf(toks) == {toks[i] - LEAF0 : i \in {j \in 1..Len(toks) : toks[j] >= LEAF0}}

\* the decision table of a tree: the set of assignments that allow
Table(t, leaves) == {asg \in SUBSET leaves : Eval(t, asg)}

RefTable(toks)     == Table(RefTree(toks), LeavesOf(toks))
MachineTable(toks) == Table(MachineTree(toks), LeavesOf(toks))

(***************************************************************************)
(* The printer (_checks.py __str__) as a token sequence, and the property  *)
(* that printing and re-parsing is the identity (C15).                     *)
(***************************************************************************)
RECURSIVE PrintToks(_)
Interleave(seqs, sep) ==
  LET RECURSIVE J(_)
      J(k) == IF k = 1 THEN seqs[1] ELSE J(k - 1) \o <<sep>> \o seqs[k]
  IN J(Len(seqs))
PrintToks(t) ==
  CASE t[1] = "T"    -> <<TRUE_TOK>>
    [] t[1] = "F"    -> <<FALSE_TOK>>
    [] t[1] = "leaf" -> <<LEAF0 + t[2]>>
    [] t[1] = "not"  -> <<NOT>> \o PrintToks(t[2])
    [] t[1] = "and"  -> <<LP>> \o Interleave([i \in 1..Len(t[2]) |-> PrintToks(t[2][i])], AND) \o <<RP>>
    [] t[1] = "or"   -> <<LP>> \o Interleave([i \in 1..Len(t[2]) |-> PrintToks(t[2][i])], OR) \o <<RP>>

(***************************************************************************)
(* The legacy list-of-lists syntax (_parse_list_rule): the outer list is   *)
(* joined by or, each inner list by and; empty inner lists are skipped; an *)
(* empty outer list allows; nothing but empty inner lists denies.  An      *)
(* inner entry is a sequence of check tokens (a bare string is a           *)
(* one-element inner list).                                                *)
(***************************************************************************)
ListTree(outer) ==
  LET ne  == SelectSeq(outer, LAMBDA inner : Len(inner) > 0)
      one(inner) == IF Len(inner) = 1 THEN CheckTree(inner[1])
                    ELSE And([i \in 1..Len(inner) |-> CheckTree(inner[i])])
  IN IF Len(outer) = 0 THEN TreeT
     ELSE IF Len(ne) = 0 THEN TreeF
     ELSE IF Len(ne) = 1 THEN one(ne[1])
     ELSE Or([i \in 1..Len(ne) |-> one(ne[i])])

\* the declarative reading of C01: OR over non-empty entries of AND of leaves
ListAllows(outer, asg) ==
  IF Len(outer) = 0 THEN TRUE
  ELSE \E i \in 1..Len(outer) :
         /\ Len(outer[i]) > 0
         /\ \A j \in 1..Len(outer[i]) : Eval(CheckTree(outer[i][j]), asg)
=============================================================================
