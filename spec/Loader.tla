------------------------------- MODULE Loader -------------------------------
(***************************************************************************)
(* The rule loader of oslo.policy (Enforcer.load_rules and helpers,        *)
(* _cache_handler.read_cached_file) over an abstract file system.          *)
(*                                                                         *)
(* Policy names are strings.  A rule body is                               *)
(*    [k |-> "roles", r |-> set of role names]   an OR of role: checks     *)
(*                                               ({} is "!")               *)
(*    [k |-> "alias", n |-> name]                the text rule:<name>      *)
(*    [k |-> "none"]                             not defined               *)
(* so that the decision vector over single-role credentials tells which    *)
(* layer governs, and OR-merging is set union.                             *)
(*                                                                         *)
(* A file is [exists, mtime, content] with content a function name->body;  *)
(* directories carry their own mtime (it moves when an entry is created or *)
(* deleted).  The loader state is what the Enforcer keeps between calls.   *)
(***************************************************************************)
EXTENDS Naturals, Sequences, FiniteSets, TLC

CONSTANTS
  Names,        \* set of policy names that may occur in files / defaults
  MainFile,     \* id of the main policy file
  Dirs,         \* sequence of configured policy directories (in configured order)
  Loadable,     \* [dir -> sequence of file ids in lexicographic order] - top-level, non-dot regular files
  Ignored,      \* [dir -> set of entry ids that sit in the directory but are not policy files (dot-files, sub-directories)]
  Defaults      \* sequence of registered defaults [name, body, dep, removal] with dep = [name, body] or [name |-> "", ...]

None == [k |-> "none"]
RolesB(rs) == [k |-> "roles", r |-> rs]
Alias(n) == [k |-> "alias", n |-> n]
AnyRule == [k |-> "any"]
Range(s) == {s[i] : i \in DOMAIN s}
NoRules == [n \in Names |-> None]
IsEmptyRules(r) == \A n \in Names : r[n].k = "none"
\* dict.update
Update(r, c) == [n \in Names |-> IF c[n].k # "none" THEN c[n] ELSE r[n]]

DirFiles(d) == Range(Loadable[d])
Entries(d) == DirFiles(d) \cup Ignored[d]
AllFiles == {MainFile} \cup UNION {Entries(Dirs[i]) : i \in 1..Len(Dirs)}

Max(S) == CHOOSE x \in S : \A y \in S : y <= x

(***************************************************************************)
(* _cache_handler.read_cached_file                                         *)
(***************************************************************************)
NoEntry == [has |-> FALSE, mtime |-> 0, data |-> NoRules]
ReadCached(cache, f, fs, force) ==
  LET c0 == IF force THEN [cache EXCEPT ![f] = NoEntry] ELSE cache IN
  IF ~fs[f].exists THEN [reloaded |-> TRUE, data |-> NoRules, cache |-> c0]      \* vanished: reads as empty
  ELSE IF ~c0[f].has \/ fs[f].mtime > c0[f].mtime
       THEN [reloaded |-> TRUE, data |-> fs[f].content,
             cache |-> [c0 EXCEPT ![f] = [has |-> TRUE, mtime |-> fs[f].mtime, data |-> fs[f].content]]]
       ELSE [reloaded |-> FALSE, data |-> c0[f].data, cache |-> c0]

(***************************************************************************)
(* Enforcer._load_policy_file: returns the new loader state and whether    *)
(* rules were (re)applied                                                  *)
(***************************************************************************)
LoadPolicyFile(st, f, fs, force, overwrite) ==
  LET r == ReadCached(st.cache, f, fs, force) IN
  IF r.reloaded \/ IsEmptyRules(st.rules)
  THEN [st |-> [st EXCEPT !.cache = r.cache,
                          !.rules = IF overwrite THEN r.data ELSE Update(st.rules, r.data),
                          !.frules = IF overwrite THEN r.data ELSE Update(st.frules, r.data)],
        changed |-> TRUE]
  ELSE [st |-> [st EXCEPT !.cache = r.cache], changed |-> FALSE]

(***************************************************************************)
(* Enforcer._is_directory_updated over all configured, existing            *)
(* directories (every one is examined, the cache updated for each)         *)
(***************************************************************************)
DirStamp(d, fs, dirs) == Max({dirs[d].mtime} \cup {fs[f].mtime : f \in {g \in Entries(d) : fs[g].exists}})
ExistingDirs(dirs) == SelectSeq(Dirs, LAMBDA d : dirs[d].exists)
DirsUpdated(st, fs, dirs) == \E i \in 1..Len(ExistingDirs(dirs)) :
                                DirStamp(ExistingDirs(dirs)[i], fs, dirs) > st.dmt[ExistingDirs(dirs)[i]]
NewDmt(st, fs, dirs) == [d \in DOMAIN st.dmt |->
                           IF dirs[d].exists /\ DirStamp(d, fs, dirs) > st.dmt[d] THEN DirStamp(d, fs, dirs) ELSE st.dmt[d]]

(***************************************************************************)
(* Enforcer._handle_deprecated_rule (C11), branch for branch               *)
(***************************************************************************)
OrBody(a, b) == IF a.k = "any" \/ b.k = "any" THEN AnyRule          \* the empty check string: always allow
                ELSE IF a.k = "roles" /\ b.k = "roles" THEN RolesB(a.r \cup b.r) ELSE a
HandleDeprecated(d, frules, enforceNew) ==
  IF d.dep.name # d.name /\ d.dep.name \in Names /\ frules[d.dep.name].k # "none"
     /\ frules[d.dep.name] # Alias(d.name)            \* not merely the alias rule:<new>
     /\ frules[d.name].k = "none"
  THEN frules[d.dep.name]
  ELSE IF ~enforceNew /\ d.dep.body # d.body /\ frules[d.name].k = "none"
       THEN OrBody(d.body, d.dep.body)
       ELSE d.body

\* only the first n registered defaults exist yet (register_default may be called late)
RECURSIVE MergeDefaultsN(_, _, _, _, _)
MergeDefaultsN(rules, frules, i, enforceNew, n) ==
  IF i > n THEN rules
  ELSE LET d == Defaults[i] IN
       IF rules[d.name].k # "none" THEN MergeDefaultsN(rules, frules, i + 1, enforceNew, n)
       ELSE MergeDefaultsN([rules EXCEPT ![d.name] = IF d.dep.name = "" THEN d.body ELSE HandleDeprecated(d, frules, enforceNew)],
                           frules, i + 1, enforceNew, n)
MergeDefaults(rules, frules, i, enforceNew) == MergeDefaultsN(rules, frules, i, enforceNew, Len(Defaults))

(***************************************************************************)
(* Enforcer.load_rules (use_conf, overwrite mode)                          *)
(***************************************************************************)
RECURSIVE WalkFiles(_, _, _, _)
WalkFiles(st, files, i, fs) ==
  IF i > Len(files) THEN st
  ELSE WalkFiles(IF fs[files[i]].exists THEN LoadPolicyFile(st, files[i], fs, TRUE, FALSE).st ELSE st, files, i + 1, fs)
RECURSIVE WalkDirs(_, _, _, _)
WalkDirs(st, ds, i, fs) == IF i > Len(ds) THEN st ELSE WalkDirs(WalkFiles(st, Loadable[ds[i]], 1, fs), ds, i + 1, fs)

InitLoader == [rules |-> NoRules, frules |-> NoRules,
               cache |-> [f \in AllFiles |-> NoEntry],
               dmt |-> [d \in Range(Dirs) |-> 0],
               path |-> FALSE]

\* overwrite: the Enforcer's overwrite mode (TRUE is the default; FALSE merges
\* what is read into the existing rule store instead of replacing it)
\* PreMerge: everything load_rules does before it turns to the registered defaults
PreMerge(st0, fs, dirs, force, overwrite) ==
  LET \* 1. resolve the main file once
      st1 == IF ~st0.path /\ fs[MainFile].exists THEN [st0 EXCEPT !.path = TRUE] ELSE st0
      \* 2. main file through the mtime cache
      m == IF st1.path THEN LoadPolicyFile(st1, MainFile, fs, force, overwrite) ELSE [st |-> st1, changed |-> FALSE]
      \* 3. directories
      forceDirs == force \/ m.changed \/ DirsUpdated(m.st, fs, dirs)
      st3 == [m.st EXCEPT !.dmt = NewDmt(m.st, fs, dirs)]
      ex == ExistingDirs(dirs)
      \* 4. rebuild from scratch when anything changed
  IN IF forceDirs /\ Len(ex) > 0
     THEN LET base == IF st3.path
                      THEN (IF ~m.changed /\ overwrite THEN LoadPolicyFile(st3, MainFile, fs, TRUE, overwrite).st ELSE st3)
                      ELSE (IF overwrite THEN [st3 EXCEPT !.rules = NoRules, !.frules = NoRules] ELSE st3)
          IN WalkDirs(base, ex, 1, fs)
     ELSE st3
LoadRulesOvN(st0, fs, dirs, force, enforceNew, overwrite, n) ==
  LET st4 == PreMerge(st0, fs, dirs, force, overwrite)
      \* 5. registered defaults for names still absent
  IN [st4 EXCEPT !.rules = MergeDefaultsN(st4.rules, st4.frules, 1, enforceNew, n)]
LoadRulesOv(st0, fs, dirs, force, enforceNew, overwrite) == LoadRulesOvN(st0, fs, dirs, force, enforceNew, overwrite, Len(Defaults))

(***************************************************************************)
(* Beyond the listed properties: the deprecation warnings one load_rules   *)
(* call emits (warnings.warn), in order.  For every registered default:    *)
(*   "removal"  it is deprecated for removal and operators override it     *)
(*              (on every call)                                            *)
(* and, only when the default is merged (its name is not in the store):    *)
(*   "deprecated"  once when the deprecated, renamed name is overridden in  *)
(*              the files, and once when the default's check string is     *)
(*              changing and the old one is OR-ed in (enforce_new_defaults *)
(*              off, name not overridden) - the two use the same text      *)
(***************************************************************************)
RECURSIVE WarnFrom(_, _, _, _, _)
WarnFrom(rules, frules, i, enforceNew, nr) ==
  IF i > nr THEN <<>>
  ELSE LET d == Defaults[i]
           rem == IF d.removal = 1 /\ frules[d.name].k # "none" THEN << <<"removal", d.name>> >> ELSE <<>>
       IN IF rules[d.name].k # "none" THEN rem \o WarnFrom(rules, frules, i + 1, enforceNew, nr)
          ELSE LET ren == d.dep.name # "" /\ d.dep.name # d.name /\ d.dep.name \in Names /\ frules[d.dep.name].k # "none"
                   governs == ren /\ frules[d.dep.name] # Alias(d.name) /\ frules[d.name].k = "none"
                   chg == d.dep.name # "" /\ ~governs /\ ~enforceNew /\ d.dep.body # d.body /\ frules[d.name].k = "none"
                   body == IF d.dep.name = "" THEN d.body ELSE HandleDeprecated(d, frules, enforceNew)
               IN rem \o (IF ren THEN << <<"deprecated", d.name>> >> ELSE <<>>)
                      \o (IF chg THEN << <<"deprecated", d.name>> >> ELSE <<>>)
                      \o WarnFrom([rules EXCEPT ![d.name] = body], frules, i + 1, enforceNew, nr)
LoadWarnings(st0, fs, dirs, force, enforceNew, overwrite, nr) ==
  LET st4 == PreMerge(st0, fs, dirs, force, overwrite) IN WarnFrom(st4.rules, st4.frules, 1, enforceNew, nr)

LoadRules(st0, fs, dirs, force, enforceNew) == LoadRulesOv(st0, fs, dirs, force, enforceNew, TRUE)

(***************************************************************************)
(* Decisions: which single roles a name allows (references followed).  A   *)
(* name that is undefined - asked for directly or reached through a        *)
(* reference - is decided by the default rule: dd is the set of roles the  *)
(* default rule allows, {} when no usable default rule is configured.      *)
(***************************************************************************)
RECURSIVE AllowedWith(_, _, _, _)
AllowedWith(rules, n, fuel, dd) ==
  IF fuel = 0 THEN {}
  ELSE IF n \notin Names \/ rules[n].k = "none" THEN dd
  ELSE IF rules[n].k = "roles" THEN rules[n].r
  ELSE IF rules[n].k = "any" THEN {"*"}          \* the always-allow rule: every role (written "*")
  ELSE AllowedWith(rules, rules[n].n, fuel - 1, dd)
DecisionsWith(rules, dd) == [n \in Names |-> AllowedWith(rules, n, 4, dd)]
Allowed(rules, n, fuel) == AllowedWith(rules, n, fuel, {})
Decisions(rules) == DecisionsWith(rules, {})

(***************************************************************************)
(* C09 / C11 - the declarative reading: the effective definition of a name *)
(* is the last one found in the order registered default < main file <     *)
(* directories in configured order, files in lexicographic order.          *)
(***************************************************************************)
FileOrder(fs, dirs) ==
  LET RECURSIVE Cat(_)
      Cat(i) == IF i > Len(Dirs) THEN <<>>
                ELSE (IF dirs[Dirs[i]].exists THEN SelectSeq(Loadable[Dirs[i]], LAMBDA f : fs[f].exists) ELSE <<>>) \o Cat(i + 1)
  IN (IF fs[MainFile].exists THEN <<MainFile>> ELSE <<>>) \o Cat(1)

\* last definition of n in the files, or None
FileDef(n, fs, dirs) ==
  LET fo == FileOrder(fs, dirs)
      idx == {i \in 1..Len(fo) : fs[fo[i]].content[n].k # "none"}
  IN IF idx = {} THEN None ELSE fs[fo[Max(idx)]].content[n]

\* the override table of C11 for a registered default d, given the files
C11Body(d, fs, dirs, enforceNew) ==
  LET newOv == FileDef(d.name, fs, dirs)
      oldOv == IF d.dep.name # "" /\ d.dep.name # d.name /\ d.dep.name \in Names THEN FileDef(d.dep.name, fs, dirs) ELSE None
  IN IF newOv.k # "none" THEN newOv
     ELSE IF d.dep.name = "" THEN d.body
     ELSE IF oldOv.k # "none" /\ oldOv # Alias(d.name) THEN oldOv
     ELSE IF ~enforceNew /\ d.dep.body # d.body THEN OrBody(d.body, d.dep.body)
     ELSE d.body

FreshPolicyN(fs, dirs, enforceNew, nr) ==
  [n \in Names |->
     IF \E i \in 1..nr : Defaults[i].name = n
     THEN C11Body(Defaults[CHOOSE i \in 1..nr : Defaults[i].name = n], fs, dirs, enforceNew)
     ELSE FileDef(n, fs, dirs)]
FreshPolicy(fs, dirs, enforceNew) == FreshPolicyN(fs, dirs, enforceNew, Len(Defaults))
=============================================================================
