------------------------------ MODULE LoaderMT ------------------------------
(***************************************************************************)
(* Enforcer.enforce at the granularity of its writes to the state shared   *)
(* between threads (self.rules, self.file_rules, self._file_cache,         *)
(* self._policy_dir_mtimes), for two threads running the same program:     *)
(*                                                                         *)
(*   load_rules  read_main  apply_main  record_reset  record_fill          *)
(*               dirs_check [reread_main reapply_main rerecord_reset       *)
(*               rerecord_fill] (walk_read walk_update walk_record)*       *)
(*               (default_i)*                                              *)
(*   lookup      the check object is fetched from self.rules               *)
(*   eval        references (rule:x) are looked up again, at evaluation    *)
(*                                                                         *)
(* Each label is one step; between any two steps the other thread may run. *)
(* There is no lock and no copy-then-swap in the code, and none here.      *)
(* Bodies: Loader's, plus [k |-> "any"] (the always-allow rule, for a      *)
(* permissive default rule).  The default rule is the name "default".      *)
(***************************************************************************)
EXTENDS Loader

CONSTANTS AllRoles, EnforceNew,
          OverwriteMode, \* the enforcer's overwrite mode (FALSE: what is read is merged into the store)
          NameOrder     \* the names in the order a file lists them (file_rules is filled one name at a time)

AnyB == [k |-> "any"]

\* decisions with the default-rule fallback (policy_default_rule = "default")
RECURSIVE AllowedD(_, _, _)
AllowedD(rules, n, fuel) ==
  LET nm == IF n \in Names /\ rules[n].k # "none" THEN n
            ELSE IF "default" \in Names /\ rules["default"].k # "none" THEN "default" ELSE "" IN
  IF nm = "" \/ fuel = 0 THEN {}
  ELSE CASE rules[nm].k = "roles" -> rules[nm].r
         [] rules[nm].k = "any" -> AllRoles
         [] rules[nm].k = "alias" -> AllowedD(rules, rules[nm].n, fuel - 1)
DecD(rules, n) == AllowedD(rules, n, 4)

(***************************************************************************)
(* One micro-step of one thread.  sh: the shared record [rules, frules,    *)
(* cache, dmt]; lo: the thread's locals [pc, reloaded, data, changed, k,   *)
(* i, q (queried name), chk (fetched body), dec (decision: set of roles)]. *)
(* Returns [sh, lo].                                                       *)
(***************************************************************************)
Ex(dirs) == ExistingDirs(dirs)
\* loadable, existing files of the existing directories, in walk order
WalkList(fs, dirs) ==
  LET RECURSIVE Cat(_)
      Cat(j) == IF j > Len(Ex(dirs)) THEN <<>> ELSE SelectSeq(Loadable[Ex(dirs)[j]], LAMBDA f : fs[f].exists) \o Cat(j + 1)
  IN Cat(1)

AsSt(sh) == [rules |-> sh.rules, frules |-> sh.frules, cache |-> sh.cache, dmt |-> sh.dmt, path |-> TRUE]

\* _record_file_rules: file_rules[name] = ... for one name of the file per step
\* (lo.j: position in NameOrder of the last name recorded; names the file does
\* not define are skipped)
RECURSIVE NextDef(_, _)
NextDef(data, j) == IF j > Len(NameOrder) THEN j ELSE IF data[NameOrder[j]].k # "none" THEN j ELSE NextDef(data, j + 1)
FillOne(sh, lo, after) ==
  LET j == NextDef(lo.data, lo.j + 1) IN
  IF j > Len(NameOrder) THEN [sh |-> sh, lo |-> [lo EXCEPT !.pc = after, !.j = 0]]
  ELSE LET sh2 == [sh EXCEPT !.frules[NameOrder[j]] = lo.data[NameOrder[j]]] IN
       IF NextDef(lo.data, j + 1) > Len(NameOrder)
       THEN [sh |-> sh2, lo |-> [lo EXCEPT !.pc = after, !.j = 0]]
       ELSE [sh |-> sh2, lo |-> [lo EXCEPT !.j = j]]

Step(sh, lo, fs, dirs) ==
  CASE lo.pc = "read_main" ->
         LET r == ReadCached(sh.cache, MainFile, fs, FALSE) IN
         [sh |-> [sh EXCEPT !.cache = r.cache], lo |-> [lo EXCEPT !.pc = "apply_main", !.reloaded = r.reloaded, !.data = r.data]]
    [] lo.pc = "apply_main" ->
         IF lo.reloaded \/ IsEmptyRules(sh.rules)
         THEN [sh |-> [sh EXCEPT !.rules = IF OverwriteMode THEN lo.data ELSE Update(sh.rules, lo.data)],
               lo |-> [lo EXCEPT !.pc = IF OverwriteMode THEN "record_reset" ELSE "record_fill", !.changed = TRUE]]
         ELSE [sh |-> sh, lo |-> [lo EXCEPT !.pc = "dirs_check", !.changed = FALSE]]
    [] lo.pc = "record_reset" -> [sh |-> [sh EXCEPT !.frules = NoRules], lo |-> [lo EXCEPT !.pc = "record_fill"]]
    [] lo.pc = "record_fill" -> FillOne(sh, lo, "dirs_check")
    [] lo.pc = "dirs_check" ->
         LET upd == DirsUpdated(AsSt(sh), fs, dirs)
             force == lo.changed \/ upd
             sh2 == [sh EXCEPT !.dmt = NewDmt(AsSt(sh), fs, dirs)] IN
         IF force /\ Len(Ex(dirs)) > 0
         THEN [sh |-> sh2, lo |-> [lo EXCEPT !.pc = IF lo.changed \/ ~OverwriteMode THEN "walk_read" ELSE "reread_main", !.k = 1]]
         ELSE [sh |-> sh2, lo |-> [lo EXCEPT !.pc = "default", !.i = 1]]
    [] lo.pc = "reread_main" ->
         LET r == ReadCached(sh.cache, MainFile, fs, TRUE) IN
         [sh |-> [sh EXCEPT !.cache = r.cache], lo |-> [lo EXCEPT !.pc = "reapply_main", !.data = r.data]]
    [] lo.pc = "reapply_main" -> [sh |-> [sh EXCEPT !.rules = lo.data], lo |-> [lo EXCEPT !.pc = "rerecord_reset"]]
    [] lo.pc = "rerecord_reset" -> [sh |-> [sh EXCEPT !.frules = NoRules], lo |-> [lo EXCEPT !.pc = "rerecord_fill"]]
    [] lo.pc = "rerecord_fill" -> FillOne(sh, [lo EXCEPT !.k = 1], "walk_read")
    [] lo.pc = "walk_read" ->
         IF lo.k > Len(WalkList(fs, dirs)) THEN [sh |-> sh, lo |-> [lo EXCEPT !.pc = "default", !.i = 1]]
         ELSE LET r == ReadCached(sh.cache, WalkList(fs, dirs)[lo.k], fs, TRUE) IN
              [sh |-> [sh EXCEPT !.cache = r.cache], lo |-> [lo EXCEPT !.pc = "walk_update", !.data = r.data]]
    [] lo.pc = "walk_update" -> [sh |-> [sh EXCEPT !.rules = Update(sh.rules, lo.data)], lo |-> [lo EXCEPT !.pc = "walk_record"]]
    [] lo.pc = "walk_record" -> FillOne(sh, lo, "walk_next")
    [] lo.pc = "walk_next" -> [sh |-> sh, lo |-> [lo EXCEPT !.pc = "walk_read", !.k = lo.k + 1]]
    [] lo.pc = "default" ->
         IF lo.i > Len(Defaults) THEN [sh |-> sh, lo |-> [lo EXCEPT !.pc = "lookup"]]
         ELSE LET d == Defaults[lo.i] IN
              IF sh.rules[d.name].k # "none" THEN [sh |-> sh, lo |-> [lo EXCEPT !.i = lo.i + 1]]
              ELSE [sh |-> [sh EXCEPT !.rules[d.name] = IF d.dep.name = "" THEN d.body ELSE HandleDeprecated(d, sh.frules, EnforceNew)],
                    lo |-> [lo EXCEPT !.i = lo.i + 1]]
    [] lo.pc = "lookup" ->
         \* self.rules[rule] with the default-rule fallback; an empty rule set or a miss denies
         LET nm == IF sh.rules[lo.q].k # "none" THEN lo.q
                   ELSE IF "default" \in Names /\ sh.rules["default"].k # "none" THEN "default" ELSE "" IN
         IF nm = "" THEN [sh |-> sh, lo |-> [lo EXCEPT !.pc = "done", !.dec = {}]]
         ELSE [sh |-> sh, lo |-> [lo EXCEPT !.pc = "eval", !.chk = sh.rules[nm]]]
    [] lo.pc = "eval" ->
         \* a reference is resolved against self.rules as it is NOW
         [sh |-> sh, lo |-> [lo EXCEPT !.pc = "done",
                                       !.dec = CASE lo.chk.k = "roles" -> lo.chk.r
                                                 [] lo.chk.k = "any" -> AllRoles
                                                 [] lo.chk.k = "alias" -> DecD(sh.rules, lo.chk.n)
                                                 [] OTHER -> {}]]

InitLocal(q) == [pc |-> "read_main", reloaded |-> FALSE, data |-> NoRules, changed |-> FALSE, k |-> 1, i |-> 1, j |-> 0, q |-> q, chk |-> None, dec |-> {}]

\* the whole program run without interruption
RECURSIVE RunToEnd(_, _, _, _)
RunToEnd(sh, lo, fs, dirs) == IF lo.pc = "done" THEN [sh |-> sh, lo |-> lo]
                             ELSE LET s == Step(sh, lo, fs, dirs) IN RunToEnd(s.sh, s.lo, fs, dirs)
\* settle: run load steps only (query is irrelevant)
Settle(sh, fs, dirs) == RunToEnd(sh, InitLocal(CHOOSE n \in Names : TRUE), fs, dirs).sh
EmptyShared == [rules |-> NoRules, frules |-> NoRules, cache |-> [f \in AllFiles |-> NoEntry], dmt |-> [d \in Range(Dirs) |-> 0]]

\* per decision: old or new
OldOrNew(dec, old, new) == \A r \in AllRoles : ((r \in dec) = (r \in old)) \/ ((r \in dec) = (r \in new))
=============================================================================
