---------------------------- MODULE MC_Default ----------------------------
(***************************************************************************)
(* C03 / C06 / C07 at design level: every rule set over the names          *)
(* {n1, n2, d} with bodies from a small pool (acyclic ones), every way of  *)
(* configuring the default rule, every queried name, credentials with and  *)
(* without the role.  Enforce (transcribed from the code) is compared with *)
(* the decision table of C03, alias transparency and the raise/return      *)
(* relation of C07.                                                        *)
(***************************************************************************)
EXTENDS PolicyEval

CONSTANT Big      \* 0: reduced body pool (quick tier), 1: full pool

VARIABLES rules, dflt, query, creds, doraise, custom, ph, fails
inputs == <<rules, dflt, query, creds, doraise, custom>>
vars == <<inputs, ph, fails>>

R == <<114>>
KRoles == <<114, 111, 108, 101, 115>>
Role == [k |-> "role", parts |-> << [k |-> "lit", s |-> R] >>]
Ref(n) == [k |-> "rule", name |-> n]
TT == [k |-> "T"]
FF == [k |-> "F"]
Bodies == IF Big = 1
          THEN {TT, FF, Role, Ref("n1"), Ref("n2"), Ref("d"), [k |-> "not", a |-> Ref("n2")],
                [k |-> "and", as |-> <<Role, Ref("n2")>>], [k |-> "or", as |-> <<Ref("d"), Role>>]}
          ELSE {TT, FF, Role, Ref("n2"), Ref("d"), [k |-> "not", a |-> Ref("n2")]}
Names == <<"n1", "n2", "d">>
Dict(es) == [t |-> "d", s |-> <<0>>, e |-> es]
Scalar(s) == [t |-> "s", s |-> s, y |-> 1]
List(es) == [t |-> "l", s |-> <<0, 0>>, e |-> es]
NoHttp == [fault |-> "none", body |-> <<>>]

\* a rule set: each name undefined or one body
Undef == [k |-> "undef"]
RuleSets == {SelectSeq([i \in 1..3 |-> <<Names[i], f[i]>>], LAMBDA p : p[2].k # "undef") :
               f \in [1..3 -> Bodies \cup {Undef}]}
Defaults == {[t |-> "unset"], [t |-> "name", v |-> "d"], [t |-> "name", v |-> "n2"], [t |-> "name", v |-> "zz"],
             [t |-> "check", v |-> TT], [t |-> "check", v |-> Role]}

Env == [target |-> Dict(<<>>), creds |-> creds, rules |-> rules, dflt |-> dflt, lowmap |-> <<>>,
        loose |-> FALSE, http |-> NoHttp, cur |-> ""]
St == [rules |-> rules, dflt |-> dflt, registered |-> <<>>, enforce_scope |-> 1, check_scopes |-> <<>>]
Call(dr, cu) == [by |-> "name", name |-> query, tree |-> FF, doraise |-> dr, custom |-> cu, authorize |-> 0, credskind |-> "map"]

\* terminating rule sets only (the recursion of a cyclic set is C13's subject)
Terminates == \A n \in {"n1", "n2", "d", "zz"} :
                LET l == Lookup(rules, dflt, n) IN l.found => Ev(l.tree, Env, Fuel).x # "diverge"

Init == /\ rules \in RuleSets
        /\ dflt \in Defaults
        /\ query \in {"n1", "n2", "d", "zz"}
        /\ creds \in {Dict(<<>>), Dict(<< <<KRoles, List(<<Scalar(R)>>)>> >>), Dict(<< <<KRoles, List(<<>>)>> >>)}
        /\ doraise \in {0, 1} /\ custom \in {0, 1}
        /\ ph = 0 /\ fails = {}

Out == Enforce(Call(doraise, custom), St, Env)
Plain == Enforce(Call(0, 0), St, Env)

\* C03: the decision table
DefaultTable == Plain.o = "ret" /\ Plain.v = C03Decision(St, Env, query)
DefinedNeverDefault == Defined(rules, query) => Plain.v = Den(Body(rules, query), Env, Fuel)
EmptyDenies == Len(rules) = 0 => Plain = Ret(FALSE, <<>>)
\* C06: a reference decides as the definition it names (or as an unknown policy)
AliasTransparent == \A n \in {"n1", "n2", "d", "zz"} :
   Ev(Ref(n), Env, Fuel).r = Enforce([Call(0, 0) EXCEPT !.name = n], St, Env).v
      \/ Len(rules) = 0     \* enforce short-cuts an empty rule set; a reference cannot exist in one
\* C07: return/raise relation
RaiseIffFalsy == (Plain.v = FALSE) <=> (Enforce(Call(1, custom), St, Env).o = "raise")
RaisedClass == Out.o = "raise" => Out.cls = (IF custom = 1 THEN "Custom" ELSE "PolicyNotAuthorized")
NeverFalsyUnderDoRaise == doraise = 1 /\ Out.o = "ret" => Out.v = TRUE

Holds == [n \in {"DefaultTable", "DefinedNeverDefault", "EmptyDenies", "AliasTransparent", "RaiseIffFalsy",
                 "RaisedClass", "NeverFalsyUnderDoRaise"} |->
            CASE n = "DefaultTable" -> DefaultTable
              [] n = "DefinedNeverDefault" -> DefinedNeverDefault
              [] n = "EmptyDenies" -> EmptyDenies
              [] n = "AliasTransparent" -> AliasTransparent
              [] n = "RaiseIffFalsy" -> RaiseIffFalsy
              [] n = "RaisedClass" -> RaisedClass
              [] n = "NeverFalsyUnderDoRaise" -> NeverFalsyUnderDoRaise]

\* one evaluation step per input (done by the workers in parallel)
Evaluate == /\ ph = 0 /\ ph' = 1
            /\ fails' = IF Terminates THEN {n \in DOMAIN Holds : ~Holds[n]} ELSE {"nonterminating"}
            /\ UNCHANGED inputs
Next == Evaluate
Spec == Init /\ [][Next]_vars

InvDefaultTable == "DefaultTable" \notin fails
InvDefinedNeverDefault == "DefinedNeverDefault" \notin fails
InvEmptyDenies == "EmptyDenies" \notin fails
InvAliasTransparent == "AliasTransparent" \notin fails
InvRaiseIffFalsy == "RaiseIffFalsy" \notin fails
InvRaisedClass == "RaisedClass" \notin fails
InvNeverFalsyUnderDoRaise == "NeverFalsyUnderDoRaise" \notin fails
\* vacuity guard: terminating inputs exist (checked by the harness through coverage of Evaluate)
=============================================================================
