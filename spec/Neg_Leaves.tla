----------------------------- MODULE Neg_Leaves -----------------------------
(* Negative control: no case folding in role comparison *)
EXTENDS MC_Leaves
M_NoFold(t, lowmap) == t
=============================================================================
