----------------------------- MODULE Conf_Pick -----------------------------
(* conformance of real Enforcer constructions with PickFile: each case holds
   the row and the file the real enforcer ended up using (and which file's
   rule governed a decision: "" when none exists) *)
EXTENDS PickFile, Sequences, Json, IOUtils
Cases == JsonDeserialize(IOEnv.VERIF_CASES)
VARIABLES cid, ph, ok
vars == <<cid, ph, ok>>
Governs(c, file) == IF file \in {c.existing[i] : i \in 1..Len(c.existing)} THEN file ELSE ""
Verdict(c) ==
  LET want == PickDecl(c.arg, c.loc, c.val, c.hasYaml = 1, c.hasJson = 1, c.fallback = 1) IN
  /\ c.raised = 0
  /\ c.picked = want
  /\ c.governs = Governs(c, want)
Init == cid \in 1..Len(Cases) /\ ph = 0 /\ ok = TRUE
Next == ph = 0 /\ ph' = 1 /\ ok' = Verdict(Cases[cid]) /\ UNCHANGED cid
Spec == Init /\ [][Next]_vars
Conforms == ok
=============================================================================
