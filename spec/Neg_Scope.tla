----------------------------- MODULE Neg_Scope -----------------------------
(* Negative control: domain takes precedence over system in the token scope *)
EXTENDS MC_Scope
M_TokenScope(p_cr) == IF HasKey(p_cr, KDomainId) /\ Truthy(Get(p_cr, KDomainId)) THEN "domain"
                       ELSE IF HasSystem(p_cr) THEN "system" ELSE "project"
=============================================================================
