---------------------------- MODULE Conf_Checker ----------------------------
(* conformance of real oslopolicy-checker runs (shell.tool) with Checker.
   case: rules, token (value), is_admin, has_target, target (value, the
   parsed target file), requested (name or ""), lowmap, lines (the stdout of
   the tool parsed into <<verdict, name>> pairs), crashed *)
EXTENDS Checker, Json, IOUtils
Cases == JsonDeserialize(IOEnv.VERIF_CASES)
VARIABLES cid, ph, ok
vars == <<cid, ph, ok>>
Verdict(c) ==
  LET creds == DeriveCreds(c.token, c.is_admin = 1)
      target == IF c.has_target = 1 THEN Flatten(c.target) ELSE DefaultTarget(creds)
  IN /\ c.crashed = 0
     /\ c.lines = Verdicts(c.rules, creds, target, c.lowmap, c.requested)
Init == cid \in 1..Len(Cases) /\ ph = 0 /\ ok = TRUE
Next == ph = 0 /\ ph' = 1 /\ ok' = Verdict(Cases[cid]) /\ UNCHANGED cid
Spec == Init /\ [][Next]_vars
Conforms == ok
=============================================================================
