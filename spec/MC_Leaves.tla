----------------------------- MODULE MC_Leaves -----------------------------
(***************************************************************************)
(* Exhaustive check of the leaf checks of PolicyEval over small abstract   *)
(* alphabets: the operational definitions (transcribed from the code)      *)
(* equal the declarative sentences of C04 / C05.                           *)
(***************************************************************************)
EXTENDS PolicyEval

CONSTANTS MaxName, Mode

\* abstract characters: 1/2 are a lower/upper pair, 3/4 another, 5 caseless
Chars == 1..5
LowMap == << <<2, 1>>, <<4, 3>> >>
Names == UNION {[1..n -> Chars] : n \in 1..MaxName}

VARIABLES leaf, target, creds
vars == <<leaf, target, creds>>

Scalar(s) == [t |-> "s", s |-> s, y |-> 1]
Dict(es) == [t |-> "d", s |-> <<0>>, e |-> es]
List(es) == [t |-> "l", s |-> <<0, 0>>, e |-> es]
KRoles == <<114, 111, 108, 101, 115>>
KeyK == <<9>>

RoleInit ==
  /\ \E x \in Names :
       \/ leaf = [k |-> "role", parts |-> << [k |-> "lit", s |-> x] >>] /\ target = Dict(<<>>)
       \/ leaf = [k |-> "role", parts |-> << [k |-> "ph", key |-> KeyK] >>] /\ target \in {Dict(<<>>), Dict(<< <<KeyK, Scalar(x)>> >>)}
  /\ \/ creds = Dict(<<>>)
     \/ \E rs \in {<<>>} \cup [1..1 -> Names] \cup {<<a, b>> : a \in [1..1 -> Chars], b \in Names} :
          creds = Dict(<< <<KRoles, List([i \in 1..Len(rs) |-> Scalar(rs[i])])>> >>)

\* ---- generic check universe: creds trees of depth <= 3 over keys {1,2}
Keys == {<<1>>, <<2>>}
Leafs == {Scalar(<<7>>), Scalar(<<8>>)}
L1 == Leafs \cup {List(<<a>>) : a \in Leafs} \cup {List(<<a, b>>) : a, b \in Leafs}
D1 == {Dict(<< <<(<<1>>), a>> >>) : a \in L1} \cup {Dict(<< <<(<<2>>), a>> >>) : a \in Leafs}
L2 == D1 \cup {List(<<a>>) : a \in D1} \cup {List(<< List(<<a>>) >>) : a \in D1} \cup Leafs
Creds2 == {Dict(<< <<(<<1>>), a>> >>) : a \in L2}
Paths == {<< <<1>> >>, << <<1>>, <<1>> >>, << <<1>>, <<2>> >>, << <<2>> >>, << <<1>>, <<1>>, <<1>> >>}
GenInit ==
  /\ \E p \in Paths, m \in {<<7>>, <<8>>, <<0>>, <<0, 0>>} :
       leaf = [k |-> "generic", lit |-> 0, ls |-> <<>>, path |-> p, parts |-> << [k |-> "lit", s |-> m] >>]
  /\ target = Dict(<<>>)
  /\ creds \in Creds2

Init == IF Mode = "role" THEN RoleInit ELSE GenInit
Next == UNCHANGED vars
Spec == Init /\ [][Next]_vars

RoleOpIsDecl == Mode = "role" => RoleAllowsOp(leaf, target, creds, LowMap) = RoleAllowsDecl(leaf, target, creds, LowMap)
\* folding is applied to both sides: the decision is invariant under changing
\* the case of X or of the role names
Swap(t) == [i \in 1..Len(t) |-> CASE t[i] = 1 -> 2 [] t[i] = 2 -> 1 [] t[i] = 3 -> 4 [] t[i] = 4 -> 3 [] OTHER -> t[i]]
SwapLeaf(l) == [l EXCEPT !.parts = [i \in 1..Len(l.parts) |-> IF l.parts[i].k = "lit" THEN [l.parts[i] EXCEPT !.s = Swap(@)] ELSE l.parts[i]]]
RoleFoldsBothSides == Mode = "role" =>
   RoleAllowsOp(SwapLeaf(leaf), target, creds, LowMap) = RoleAllowsOp(leaf, target, creds, LowMap)

GenOpIsDecl == Mode = "generic" =>
   \A loose \in BOOLEAN : GenericAllows(leaf, target, creds, loose) = GenericAllowsDecl(leaf, target, creds, loose)
\* strict and loose differ only when a list sits directly inside a list
GenCornerOnlyNested == Mode = "generic" =>
   (GenericAllows(leaf, target, creds, TRUE) # GenericAllows(leaf, target, creds, FALSE)
      => \E v \in {creds.e[1][2]} : v.t = "l" /\ \E i \in 1..Len(v.e) : v.e[i].t = "l")
=============================================================================
