----------------------------- MODULE MC_Scope -----------------------------
(***************************************************************************)
(* C08 (and the raise/return surface of C07) at design level: the complete *)
(* finite table of scope types x scope attributes present in the           *)
(* credentials x enforce_scope x do_raise x check result x by name / as    *)
(* check object x registered or not (authorize).  Enforce (transcribed     *)
(* from the code) against the sentence of C08.                             *)
(***************************************************************************)
EXTENDS PolicyEval

VARIABLES scopes, sys, sysspell, dom, proj, enf, doraise, custom, allow, by, auth, reg, credsbad, ph, fails
inputs == <<scopes, sys, sysspell, dom, proj, enf, doraise, custom, allow, by, auth, reg, credsbad>>
vars == <<inputs, ph, fails>>

Kinds == {"system", "domain", "project"}
\* every ordering of every non-empty subset, and none
ScopeLists == {<<>>} \cup {s \in UNION {[1..n -> Kinds] : n \in 1..3} : \A i, j \in 1..Len(s) : i # j => s[i] # s[j]}

Dict(es) == [t |-> "d", s |-> <<0>>, e |-> es]
Scalar(s, y) == [t |-> "s", s |-> s, y |-> y]
KProjectId == <<112>>
Creds == Dict( (IF sys = 1 THEN << <<(IF sysspell = 1 THEN KSystem ELSE KSystemScope), Scalar(<<97>>, 1)>> >> ELSE
                IF sys = 2 THEN << <<KSystemScope, Scalar(<<>>, 0)>> >> ELSE <<>>)       \* 2: present but empty
            \o (IF dom = 1 THEN << <<KDomainId, Scalar(<<100>>, 1)>> >> ELSE
                IF dom = 2 THEN << <<KDomainId, Scalar(<<>>, 0)>> >> ELSE <<>>)
            \o (IF proj = 1 THEN << <<KProjectId, Scalar(<<112>>, 1)>> >> ELSE <<>>))
PBody == IF allow = 1 THEN [k |-> "T"] ELSE [k |-> "F"]
NoHttp == [fault |-> "none", body |-> <<>>]
Env == [target |-> Dict(<<>>), creds |-> Creds, rules |-> << <<"p", PBody>> >>, dflt |-> [t |-> "unset"], lowmap |-> <<>>,
        loose |-> FALSE, http |-> NoHttp, cur |-> ""]
St == [rules |-> << <<"p", PBody>> >>, dflt |-> [t |-> "unset"],
       registered |-> IF reg = 1 THEN << <<"p", scopes>> >> ELSE <<>>,
       enforce_scope |-> enf, check_scopes |-> scopes]
Call == [by |-> by, name |-> "p", tree |-> PBody, doraise |-> doraise, custom |-> custom, authorize |-> auth,
         credskind |-> IF credsbad = 1 THEN "bad" ELSE "map"]

Init == /\ scopes \in ScopeLists /\ sys \in {0, 1, 2} /\ sysspell \in {0, 1} /\ dom \in {0, 1, 2} /\ proj \in {0, 1}
        /\ enf \in {0, 1} /\ doraise \in {0, 1} /\ custom \in {0, 1} /\ allow \in {0, 1}
        /\ by \in {"name", "check"} /\ auth \in {0, 1} /\ reg \in {0, 1} /\ credsbad \in {0, 1}
        /\ (auth = 1 => by = "name")
        /\ ph = 0 /\ fails = {}

Out == Enforce(Call, St, Env)

\* the sentence of C08
TokenDecl == IF sys = 1 THEN "system" ELSE IF dom = 1 THEN "domain" ELSE "project"
Declared == IF by = "check" THEN scopes ELSE IF reg = 1 THEN scopes ELSE <<>>
Blocked == Len(Declared) > 0 /\ TokenDecl \notin Range(Declared) /\ enf = 1
CheckOutcome == IF allow = 1 THEN Ret(TRUE, <<>>)
                ELSE IF doraise = 1 THEN Raise(IF custom = 1 THEN "Custom" ELSE "PolicyNotAuthorized", <<>>)
                ELSE Ret(FALSE, <<>>)
Expected == IF auth = 1 /\ reg = 0 THEN Raise("PolicyNotRegistered", <<>>)
            ELSE IF credsbad = 1 THEN Raise("InvalidContextObject", <<>>)
            ELSE IF Blocked THEN (IF doraise = 1 THEN Raise("InvalidScope", <<>>) ELSE Ret(FALSE, <<>>))
            ELSE CheckOutcome

ScopeTable == Out = Expected
TokenPrecedence == credsbad = 0 => TokenScope(Creds) = TokenDecl
\* C07
AllowNeverRaises == (Out.o = "ret" /\ Out.v) => (allow = 1)
DoRaiseNeverFalsy == doraise = 1 /\ Out.o = "ret" => Out.v
RaiseIffFalsy == LET plain == Enforce([Call EXCEPT !.doraise = 0], St, Env)
                     rais == Enforce([Call EXCEPT !.doraise = 1], St, Env)
                 IN (plain.o = "ret" /\ ~plain.v) <=> (rais.o = "raise" /\ plain.o = "ret")
Documented == Out.o = "raise" => Out.cls \in {"PolicyNotAuthorized", "Custom", "InvalidScope", "InvalidContextObject", "PolicyNotRegistered"}

Holds == [n \in {"ScopeTable", "TokenPrecedence", "AllowNeverRaises", "DoRaiseNeverFalsy", "RaiseIffFalsy", "Documented"} |->
            CASE n = "ScopeTable" -> ScopeTable
              [] n = "TokenPrecedence" -> TokenPrecedence
              [] n = "AllowNeverRaises" -> AllowNeverRaises
              [] n = "DoRaiseNeverFalsy" -> DoRaiseNeverFalsy
              [] n = "RaiseIffFalsy" -> RaiseIffFalsy
              [] n = "Documented" -> Documented]
Evaluate == ph = 0 /\ ph' = 1 /\ fails' = {n \in DOMAIN Holds : ~Holds[n]} /\ UNCHANGED inputs
Next == Evaluate
Spec == Init /\ [][Next]_vars
InvScopeTable == "ScopeTable" \notin fails
InvTokenPrecedence == "TokenPrecedence" \notin fails
InvAllowNeverRaises == "AllowNeverRaises" \notin fails
InvDoRaiseNeverFalsy == "DoRaiseNeverFalsy" \notin fails
InvRaiseIffFalsy == "RaiseIffFalsy" \notin fails
InvDocumented == "Documented" \notin fails
=============================================================================
