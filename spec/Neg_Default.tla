---------------------------- MODULE Neg_Default ----------------------------
(* Negative controls (spec mutants) for the default-rule table: each mutant  *)
(* operator replaces the original through a definition override in the cfg;  *)
(* TLC must then violate the named invariant - otherwise that invariant      *)
(* would be vacuous on the bounded model.  Run by checks/negctl.py.           *)
EXTENDS MC_Default
\* the default rule shadows a defined name
M_LookupDefaultShadows(p_rs, p_df, p_n) ==
  IF p_df.t = "check" THEN [found |-> TRUE, tree |-> p_df.v]
  ELSE IF Defined(p_rs, p_n) THEN [found |-> TRUE, tree |-> Body(p_rs, p_n)]
  ELSE IF p_df.t = "name" /\ p_df.v # "" /\ Defined(p_rs, p_df.v) THEN [found |-> TRUE, tree |-> Body(p_rs, p_df.v)]
  ELSE [found |-> FALSE, tree |-> [k |-> "F"]]
\* an unknown name with an unusable default is allowed
M_LookupFailOpen(p_rs, p_df, p_n) ==
  IF Defined(p_rs, p_n) THEN [found |-> TRUE, tree |-> Body(p_rs, p_n)]
  ELSE IF p_df.t = "check" THEN [found |-> TRUE, tree |-> p_df.v]
  ELSE IF p_df.t = "name" /\ p_df.v # "" /\ Defined(p_rs, p_df.v) THEN [found |-> TRUE, tree |-> Body(p_rs, p_df.v)]
  ELSE [found |-> TRUE, tree |-> [k |-> "T"]]
=============================================================================
