----------------------------- MODULE MC_Loader -----------------------------
(***************************************************************************)
(* All histories, up to a length bound, of file-system operations on the   *)
(* main policy file and the files of two policy directories interleaved    *)
(* with (forced) loads, for one long-lived enforcer.                       *)
(*   C09  a fresh load equals the declarative layering (FreshPolicy)       *)
(*   C10  after every load the long-lived enforcer decides as a fresh one  *)
(*   C11  the deprecated-rule procedure equals the override table          *)
(*   C12  loading again without a change leaves the policy unchanged       *)
(***************************************************************************)
EXTENDS Loader

CONSTANTS MaxOps, EnforceNew, Variant, StartWithMain,
          Overwrite,     \* the enforcer's overwrite mode (TRUE: default)
          StartReg       \* TRUE: every default is registered before the first load; FALSE: none yet (RegisterNext)

MCNames == {"n", "n2", "o"}
MCDirs == <<"d1", "d2", "d3">>                 \* d3 is configured but never exists
MCDirsAbsentFirst == <<"d3", "d1", "d2">>       \* the directory that never exists is configured first
MCDirsDup == <<"d1", "d2", "d1", "d3">>        \* the same directory configured twice: it is applied again at its second place
MCLoadable == [d \in {"d1", "d2", "d3"} |-> CASE d = "d1" -> <<"d1/a", "d1/b">> [] d = "d2" -> <<"d2/a">> [] OTHER -> <<>>]
MCIgnored == [d \in {"d1", "d2", "d3"} |-> IF d = "d1" THEN {"d1/.hidden", "d1/sub"} ELSE {}]
NoDep == [name |-> "", body |-> None]
MCDefaults ==
  CASE Variant = "plain"   -> << [name |-> "n", body |-> RolesB({"dflt"}), dep |-> NoDep, removal |-> 0] >>
    [] Variant = "renamed" -> << [name |-> "n", body |-> RolesB({"dflt"}), dep |-> [name |-> "o", body |-> RolesB({"old"})], removal |-> 0] >>
    [] Variant = "renamed_same" -> << [name |-> "n", body |-> RolesB({"dflt"}), dep |-> [name |-> "o", body |-> RolesB({"dflt"})], removal |-> 0] >>
    [] Variant = "same_same" -> << [name |-> "n", body |-> RolesB({"dflt"}), dep |-> [name |-> "n", body |-> RolesB({"dflt"})], removal |-> 0] >>
    [] Variant = "removal" -> << [name |-> "n", body |-> RolesB({"dflt"}), dep |-> NoDep, removal |-> 1] >>
    [] Variant = "same"    -> << [name |-> "n", body |-> RolesB({"dflt"}), dep |-> [name |-> "n", body |-> RolesB({"old"})], removal |-> 0] >>
    \* boundary: a check string that is the empty string (always allow) on either side
    [] Variant = "renamed_any" -> << [name |-> "n", body |-> RolesB({"dflt"}), dep |-> [name |-> "o", body |-> AnyRule], removal |-> 0] >>
    [] Variant = "same_any" -> << [name |-> "n", body |-> RolesB({"dflt"}), dep |-> [name |-> "n", body |-> AnyRule], removal |-> 0] >>
    [] Variant = "any_new" -> << [name |-> "n", body |-> AnyRule, dep |-> [name |-> "o", body |-> RolesB({"old"})], removal |-> 0] >>
    \* the old name is itself still a policy (a same-name deprecation, registered first) next to the renamed one
    [] Variant = "shared_same" -> << [name |-> "o", body |-> RolesB({"dflt"}), dep |-> [name |-> "o", body |-> RolesB({"old"})], removal |-> 0],
                                     [name |-> "n", body |-> RolesB({"dflt"}), dep |-> [name |-> "o", body |-> RolesB({"old"})], removal |-> 0] >>
    [] Variant = "split"   -> << [name |-> "n", body |-> RolesB({"dflt"}), dep |-> [name |-> "o", body |-> RolesB({"old"})], removal |-> 0],
                                 [name |-> "n2", body |-> RolesB({"old"}), dep |-> [name |-> "o", body |-> RolesB({"old"})], removal |-> 0] >>

Absent == [exists |-> FALSE, mtime |-> 0, content |-> NoRules]

VARIABLES fs, dirs, clock, st, synced, lastop,
          removed,   \* history: some definition has been taken out of a file since the start
          nreg,      \* how many of the defaults have been registered so far
          enfnew     \* current value of the enforce_new_defaults option
vars == <<fs, dirs, clock, st, synced, lastop, removed, nreg, enfnew>>

Mutable == {"main", "d1/a", "d1/b", "d2/a"}
DirOfFile(f) == CASE f \in {"d1/a", "d1/b", "d1/.hidden", "d1/sub"} -> "d1" [] f = "d2/a" -> "d2" [] OTHER -> "none"
Stamp(f, t) == f \o "@" \o ToString(t)
Content(kind, f, t) ==
  CASE kind = "new"   -> [NoRules EXCEPT !["n"] = RolesB({Stamp(f, t)})]
    [] kind = "old"   -> [NoRules EXCEPT !["o"] = RolesB({Stamp(f, t)})]
    [] kind = "alias" -> [NoRules EXCEPT !["o"] = Alias("n")]
    [] kind = "both"  -> [NoRules EXCEPT !["n"] = RolesB({Stamp(f, t)}), !["n2"] = RolesB({Stamp(f, t) \o "#2"})]
    \* content that does not depend on when it is written: re-creating or
    \* rewriting a file with it gives byte-identical data under a newer mtime
    [] kind = "fixed" -> [NoRules EXCEPT !["n"] = RolesB({f \o "@fixed"})]
    \* an override under the old name that MEANS the deprecated default (the harness
    \* spells it differently from the default's own text): it governs like any other
    [] kind = "oldsame" -> [NoRules EXCEPT !["o"] = RolesB({"old"})]
    \* an override under the old name that is a role check whose role is spelled like the NEW policy's
    \* name (not the alias rule:<new>): it governs like any other
    [] kind = "rolenew" -> [NoRules EXCEPT !["o"] = RolesB({"n"})]
    \* an override under the old name that reads exactly like the NEW default: it governs like any other
    [] kind = "oldasnew" -> [NoRules EXCEPT !["o"] = RolesB({"dflt"})]

Init ==
  /\ fs = [f \in AllFiles |-> IF f = "main" /\ StartWithMain THEN [exists |-> TRUE, mtime |-> 1, content |-> Content("new", "main", 1)] ELSE Absent]
  \* the policy directories exist from the start, or are only created with the first entry put into them
  /\ \E de \in BOOLEAN : dirs = [d \in {"d1", "d2", "d3"} |-> [exists |-> d # "d3" /\ de, mtime |-> IF de THEN 1 ELSE 0]]
  /\ clock = 1
  /\ st = InitLoader
  /\ synced = FALSE
  /\ lastop = "init"
  /\ removed = FALSE
  /\ nreg = IF StartReg THEN Len(Defaults) ELSE 0
  /\ enfnew = EnforceNew

\* every configuration of the files at once (no history): C09's quantifier
ContentKinds == {"absent", "new", "old", "alias", "both", "oldsame"}
Order == [f \in AllFiles |-> CASE f = "main" -> 2 [] f = "d1/b" -> 3 [] f = "d1/a" -> 4 [] f = "d2/a" -> 5 [] f = "d1/.hidden" -> 6 [] OTHER -> 7]
InitAll ==
  /\ \E kind \in [Mutable -> ContentKinds], ign \in [{"d1/.hidden", "d1/sub"} -> {"absent", "new"}] :
       fs = [f \in AllFiles |->
               LET k == IF f \in Mutable THEN kind[f] ELSE ign[f] IN
               IF k = "absent" THEN Absent ELSE [exists |-> TRUE, mtime |-> Order[f], content |-> Content(k, f, Order[f])]]
  /\ dirs = [d \in {"d1", "d2", "d3"} |-> [exists |-> d # "d3", mtime |-> 7]]
  /\ clock = 8 /\ st = InitLoader /\ synced = FALSE /\ lastop = "init" /\ removed = FALSE /\ nreg = Len(Defaults) /\ enfnew = EnforceNew

BumpDir(f, t) == IF DirOfFile(f) = "none" THEN dirs ELSE [dirs EXCEPT ![DirOfFile(f)] = [exists |-> TRUE, mtime |-> t]]

Drops(old, new) == \E n \in Names : old[n].k # "none" /\ new[n].k = "none"
Write(f, kind) ==
  /\ fs' = [fs EXCEPT ![f] = [exists |-> TRUE, mtime |-> clock + 1, content |-> Content(kind, f, clock + 1)]]
  /\ removed' = (removed \/ (fs[f].exists /\ Drops(fs[f].content, Content(kind, f, clock + 1))))
  /\ dirs' = IF fs[f].exists THEN dirs ELSE BumpDir(f, clock + 1)         \* creating an entry moves the directory mtime
  /\ clock' = clock + 1 /\ synced' = FALSE /\ lastop' = "write" /\ UNCHANGED <<st, nreg, enfnew>>
Empty(f) ==
  /\ fs[f].exists
  /\ fs' = [fs EXCEPT ![f] = [exists |-> TRUE, mtime |-> clock + 1, content |-> NoRules]]
  /\ removed' = (removed \/ ~IsEmptyRules(fs[f].content))
  /\ clock' = clock + 1 /\ synced' = FALSE /\ lastop' = "empty" /\ UNCHANGED <<st, dirs, nreg, enfnew>>
Touch(f) ==
  /\ fs[f].exists
  /\ fs' = [fs EXCEPT ![f].mtime = clock + 1]
  /\ clock' = clock + 1 /\ synced' = FALSE /\ lastop' = "touch" /\ UNCHANGED <<st, dirs, removed, nreg, enfnew>>
Delete(f) ==
  /\ fs[f].exists
  /\ fs' = [fs EXCEPT ![f] = Absent]
  /\ dirs' = BumpDir(f, clock + 1)
  /\ removed' = (removed \/ ~IsEmptyRules(fs[f].content))
  /\ clock' = clock + 1 /\ synced' = FALSE /\ lastop' = "delete" /\ UNCHANGED <<st, nreg, enfnew>>
\* a file of a policy directory is replaced by renaming another file into place (cp -p, rsync -t, a package
\* upgrade): new content, the FILE's modification time does not advance (equal or older), the DIRECTORY's does
Replace(f, kind, older) ==
  /\ fs[f].exists /\ DirOfFile(f) # "none" /\ (older => fs[f].mtime > 1)
  /\ fs' = [fs EXCEPT ![f] = [exists |-> TRUE, mtime |-> IF older THEN fs[f].mtime - 1 ELSE fs[f].mtime, content |-> Content(kind, f, clock + 1)]]
  /\ removed' = (removed \/ Drops(fs[f].content, Content(kind, f, clock + 1)))
  /\ dirs' = BumpDir(f, clock + 1)
  /\ clock' = clock + 1 /\ synced' = FALSE /\ lastop' = "replace" /\ UNCHANGED <<st, nreg, enfnew>>
\* an entry that is not a policy file (dot-file, sub-directory) appears or changes
TouchIgnored(f) ==
  /\ fs' = [fs EXCEPT ![f] = [exists |-> TRUE, mtime |-> clock + 1, content |-> Content("new", f, clock + 1)]]
  /\ dirs' = IF fs[f].exists THEN dirs ELSE BumpDir(f, clock + 1)
  /\ clock' = clock + 1 /\ synced' = FALSE /\ lastop' = "ignored" /\ UNCHANGED <<st, removed, nreg, enfnew>>
\* Enforcer.register_default called after the enforcer has been in use
RegisterNext ==
  /\ nreg < Len(Defaults) /\ nreg' = nreg + 1
  /\ synced' = FALSE /\ lastop' = "register" /\ UNCHANGED <<fs, dirs, clock, st, removed, enfnew>>
\* the enforce_new_defaults option is changed while the enforcer lives; merged defaults are
\* recomputed at the next rebuild, so the comparison with a fresh enforcer waits for a forced load
SetOption(v) ==
  /\ enfnew' = v /\ synced' = FALSE /\ lastop' = "setopt" /\ UNCHANGED <<fs, dirs, clock, st, removed, nreg>>
Load(force) ==
  /\ st' = LoadRulesOvN(st, fs, dirs, force, enfnew, Overwrite, nreg)
  /\ synced' = TRUE /\ lastop' = (IF force THEN "forceload" ELSE "load")
  /\ UNCHANGED <<fs, dirs, clock, removed, nreg, enfnew>>

Next == \/ \E f \in Mutable : \/ \E k \in {"new", "old", "alias", "both", "fixed"} : Write(f, k)
                              \/ Empty(f) \/ Touch(f) \/ Delete(f)
                              \/ \E k \in {"new", "old"}, older \in BOOLEAN : Replace(f, k, older)
        \/ \E f \in {"d1/.hidden", "d1/sub"} : TouchIgnored(f)
        \/ Load(FALSE) \/ Load(TRUE)
        \/ RegisterNext
Spec == Init /\ [][Next]_vars
SpecAll == InitAll /\ [][Load(FALSE) \/ Load(TRUE)]_vars
Bounded == clock <= MaxOps

\* in the default overwrite mode a fresh enforcer is the yardstick (C10); in merge
\* mode (overwrite off) removed definitions persist by design, so only the claims
\* that do not compare with a fresh enforcer apply there
DefaultMode == Overwrite
Fresh == LoadRulesOvN(InitLoader, fs, dirs, FALSE, enfnew, Overwrite, nreg)

\* C09: what a newly started enforcer computes is the layering sentence
FreshIsLayered == Decisions(Fresh.rules) = Decisions(FreshPolicyN(fs, dirs, enfnew, nreg))
FreshExact == Fresh.rules = FreshPolicyN(fs, dirs, enfnew, nreg)
\* C10: the long-lived enforcer, right after a load, decides as a fresh one
LongLivedEqualsFresh == (synced /\ DefaultMode) => Decisions(st.rules) = Decisions(Fresh.rules)
LongLivedExact == (synced /\ DefaultMode) => st.rules = Fresh.rules
\* auxiliary: after a load, a cache entry with the file's current mtime holds the file's content
\* (between a Replace - content changed under an unchanged mtime - and the next load it need not)
CacheCoherent == synced => \A f \in AllFiles : (st.cache[f].has /\ fs[f].exists /\ st.cache[f].mtime = fs[f].mtime) => st.cache[f].data = fs[f].content
\* C12: a load that follows a load (nothing changed in between) changes nothing -
\* in either overwrite mode, and also when the second load is a forced reload
\* (merge mode keeps definitions that were removed from the files until something
\* overwrites them - a forced reload does; so there the forced case is claimed only
\* for histories in which nothing has been removed)
Idempotent == [][(synced /\ synced' /\ (Overwrite \/ ~removed \/ lastop' = "load")) => st'.rules = st.rules]_vars
\* in the default overwrite mode a fresh enforcer is the yardstick (C10); in
\* merge mode (overwrite off) removed definitions persist by design, so only
\* the claims that do not compare with a fresh enforcer apply
=============================================================================
