---------------------------- MODULE MC_Validate ----------------------------
(***************************************************************************)
(* C13 at design level: every rule graph over NNames names with bodies     *)
(* from a pool where references sit at top level, under not, under and/or, *)
(* and inside a nested group; self-loops, long cycles, diamonds, undefined *)
(* targets.  The code's walkers report exactly when the independent        *)
(* analysis finds an undefined or cycle-reaching reference; a clean graph  *)
(* evaluates with a reference depth of at most the number of names.        *)
(***************************************************************************)
EXTENDS Validate

CONSTANTS NNames, Pool          \* Pool: "full" / "pruned"

VARIABLES rules, ph, fails
vars == <<rules, ph, fails>>

Nm(i) == "n" \o ToString(i)
AllNames == {Nm(i) : i \in 1..NNames}
Targets == AllNames \cup {"zz"}
L == [k |-> "role", parts |-> << [k |-> "lit", s |-> <<114>>] >>]
Ref(n) == [k |-> "rule", name |-> n]
NotT(a) == [k |-> "not", a |-> a]
AndT(a, b) == [k |-> "and", as |-> <<a, b>>]
OrT(a, b) == [k |-> "or", as |-> <<a, b>>]
\* Pool "tiny" (for four names): the same shapes with conjunctions of two DIFFERENT names in one order only
Bodies ==
  IF Pool = "tiny"
  THEN {L} \cup {Ref(x) : x \in Targets} \cup {NotT(Ref(x)) : x \in Targets} \cup {OrT(L, Ref(x)) : x \in Targets}
       \cup {AndT(Ref(Nm(p[1])), Ref(Nm(p[2]))) : p \in {q \in (1..NNames) \X (1..NNames) : q[1] < q[2]}}
  ELSE
  {L} \cup {Ref(x) : x \in Targets} \cup {NotT(Ref(x)) : x \in Targets}
  \cup {AndT(Ref(x), Ref(y)) : x, y \in AllNames}
  \cup {OrT(L, Ref(x)) : x \in Targets}
  \cup (IF Pool = "full" THEN {AndT(L, NotT(Ref(x))) : x \in Targets} \cup {OrT(AndT(Ref(x), L), NotT(Ref(y))) : x, y \in AllNames}
        ELSE {OrT(AndT(Ref(x), L), NotT(Ref(x))) : x \in AllNames})

Init == /\ \E f \in [1..NNames -> Bodies] : rules = [i \in 1..NNames |-> <<Nm(i), f[i]>>]
        /\ ph = 0 /\ fails = {}

Dict(es) == [t |-> "d", s |-> <<0>>, e |-> es]
Env == [target |-> Dict(<<>>), creds |-> Dict(<<>>), rules |-> rules, dflt |-> [t |-> "unset"], lowmap |-> <<>>,
        loose |-> FALSE, http |-> [fault |-> "none", body |-> <<>>], cur |-> ""]

ReportExact == CheckRulesOp(rules) = CheckRulesDecl(rules)
CleanTerminates == CheckRulesDecl(rules) => \A i \in 1..NNames : Ev(rules[i][2], Env, NNames + 1).x # "diverge"
\* and conversely a rule that can reach a cycle does run out of any fuel
\* unless evaluation short-circuits before the reference (not claimed)
\* negative control: expected to FAIL (a reference under "not" is missed)
ShippedReportExact == CheckRulesShipped(rules) = CheckRulesDecl(rules)
Holds == [n \in {"ReportExact", "CleanTerminates", "ShippedReportExact"} |->
            CASE n = "ReportExact" -> ReportExact [] n = "CleanTerminates" -> CleanTerminates [] n = "ShippedReportExact" -> ShippedReportExact]
Evaluate == ph = 0 /\ ph' = 1 /\ fails' = {n \in DOMAIN Holds : ~Holds[n]} /\ UNCHANGED rules
Next == Evaluate
Spec == Init /\ [][Next]_vars
InvReportExact == "ReportExact" \notin fails
InvCleanTerminates == "CleanTerminates" \notin fails
NegShippedWalkers == "ShippedReportExact" \notin fails
=============================================================================
