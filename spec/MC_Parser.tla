----------------------------- MODULE MC_Parser -----------------------------
(***************************************************************************)
(* Exhaustive check of the design of the rule parser: every token sequence *)
(* of length <= MaxLen is pushed through the shift-reduce machine (one     *)
(* action per step the code takes) and, when the input is consumed, the    *)
(* machine's verdict and decision table are compared with the documented   *)
(* grammar's (C01: same decisions; C02: what the grammar rejects denies    *)
(* everything; C15: print . parse is the identity).                        *)
(***************************************************************************)
EXTENDS PolicyParser, TLC

CONSTANTS MaxLen,        \* longest token sequence
          NConst         \* 0: only opaque leaves; 1: also "@" "!" string tokens

VARIABLES input,   \* the token sequence being parsed
          pos,     \* next token to shift
          stack,   \* ParseState.tokens/values
          done     \* Finish taken

vars == <<input, pos, stack, done>>

\* every check occurrence is its own leaf (numbered by position), so that all
\* truth assignments are independent
Symbols == IF NConst = 1 THEN {LP, RP, AND, OR, NOT, STR, TRUE_TOK, FALSE_TOK, LEAF0}
           ELSE {LP, RP, AND, OR, NOT, LEAF0}

Number(s) == [i \in 1..Len(s) |-> IF s[i] = LEAF0 THEN LEAF0 + i ELSE s[i]]

Init == /\ \E n \in 1..MaxLen : \E s \in [1..n -> Symbols] : input = Number(s)
        /\ pos = 1 /\ stack = <<>> /\ done = FALSE

\* one action per @reducer method, each taken only when it is the first match
Wrap      == ~done /\ CanWrap(stack) /\ stack' = DoWrap(stack) /\ UNCHANGED <<input, pos, done>>
MakeAnd   == ~done /\ ~CanWrap(stack) /\ CanMakeAnd(stack) /\ stack' = DoMakeAnd(stack) /\ UNCHANGED <<input, pos, done>>
MixOrAnd  == ~done /\ CanMixOrAnd(stack) /\ ReduceOnce(stack) = DoMixOrAnd(stack) /\ stack' = DoMixOrAnd(stack) /\ UNCHANGED <<input, pos, done>>
ExtendAnd == ~done /\ CanExtendAnd(stack) /\ ReduceOnce(stack) = DoExtendAnd(stack) /\ stack' = DoExtendAnd(stack) /\ UNCHANGED <<input, pos, done>>
MakeOr    == ~done /\ CanMakeOr(stack) /\ ReduceOnce(stack) = DoMakeOr(stack) /\ stack' = DoMakeOr(stack) /\ UNCHANGED <<input, pos, done>>
ExtendOr  == ~done /\ CanExtendOr(stack) /\ ReduceOnce(stack) = DoExtendOr(stack) /\ stack' = DoExtendOr(stack) /\ UNCHANGED <<input, pos, done>>
MakeNot   == ~done /\ CanMakeNot(stack) /\ ReduceOnce(stack) = DoMakeNot(stack) /\ stack' = DoMakeNot(stack) /\ UNCHANGED <<input, pos, done>>

\* shift only when the greedy reduction has run to completion
Shift == /\ ~done /\ ~CanReduce(stack) /\ pos <= Len(input)
         /\ stack' = Append(stack, Entry(input[pos]))
         /\ pos' = pos + 1
         /\ UNCHANGED <<input, done>>

Finish == /\ ~done /\ ~CanReduce(stack) /\ pos > Len(input)
          /\ done' = TRUE /\ UNCHANGED <<input, pos, stack>>

Next == Wrap \/ MakeAnd \/ MixOrAnd \/ ExtendAnd \/ MakeOr \/ ExtendOr \/ MakeNot \/ Shift \/ Finish

Spec == Init /\ [][Next]_vars

Result == StackResult(stack)
Lv == LeavesOf(input)

\* the small-step machine and the closed form used by the trace modules agree
StepwiseIsClosedForm == done => stack = FinalStack(input)

\* C01: accepted exactly the sentences of the grammar, with the same decisions
ParserSound == done => /\ StackAccepts(stack) = RefAccepts(input)
                       /\ Table(Result, Lv) = RefTable(input)

\* C02: whatever is not a sentence denies under every assignment
FailClosed == done /\ ~RefAccepts(input) => Table(Result, Lv) = {}

\* C15: printing the result and parsing the print gives the same print and
\* the same decisions
RoundTrip == done /\ StackAccepts(stack) =>
               LET pr == PrintToks(Result)
                   t2 == MachineTree(pr)
               IN /\ MachineAccepts(pr)
                  /\ PrintToks(t2) = pr
                  /\ Table(t2, Lv) = Table(Result, Lv)

\* negative control: a machine that prefers MakeAnd over MixOrAnd semantics
\* (treats "a or b and c" as "(a or b) and c") must be caught by ParserSound
=============================================================================
