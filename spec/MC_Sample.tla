----------------------------- MODULE MC_Sample -----------------------------
(* every list of up to two registered defaults over the four kinds, every
   description / reason shape up to three lines, 0..2 operations, scope,
   with and without exclude-deprecated: the generator model emits a document
   with no live line that states every default once and is accepted by the
   document grammar used to validate real samples *)
EXTENDS SampleDoc
CONSTANT WithPairs
VARIABLES defaults, excl, ph, fails
vars == <<defaults, excl, ph, fails>>
Shapes == UNION {[1..n -> {"p", "b", "i"}] : n \in 0..3}
D(nm, kind, desc, reason, nops, scope) == [name |-> nm, check |-> <<1>>, kind |-> kind, desc |-> desc, reason |-> reason, nops |-> nops, scope |-> scope]
One(nm) == {D(nm, k, ds, rs, o, s) : k \in {"plain", "removal", "renamed", "changed"}, ds \in Shapes, rs \in {<<>>, <<"p">>, <<"p", "b", "i">>}, o \in 0..2, s \in {0, 1}}
Init == /\ defaults \in {<<a>> : a \in One(<<10>>)} \cup IF ~WithPairs THEN {} ELSE {<<a, b>> : a \in {x \in One(<<10>>) : x.nops = 1 /\ Len(x.reason) <= 1}, b \in {y \in One(<<11>>) : y.scope = 0 /\ Len(y.desc) <= 2 /\ y.nops = 0}}
        /\ excl \in BOOLEAN /\ ph = 0 /\ fails = {}
Doc == Sample(defaults, excl)
Holds == [n \in {"NoLiveLine", "EveryDefaultOnce", "RuleThenBlank", "Accepts"} |->
            CASE n = "NoLiveLine" -> NoLiveLine(Doc)
              [] n = "EveryDefaultOnce" -> EveryDefaultOnce(Doc, defaults)
              [] n = "RuleThenBlank" -> RuleThenBlank(Doc)
              [] n = "Accepts" -> Accepts(Doc, defaults)]
Evaluate == ph = 0 /\ ph' = 1 /\ fails' = {n \in DOMAIN Holds : ~Holds[n]} /\ UNCHANGED <<defaults, excl>>
Next == Evaluate
Spec == Init /\ [][Next]_vars
InvNoLiveLine == "NoLiveLine" \notin fails
InvEveryDefaultOnce == "EveryDefaultOnce" \notin fails
InvRuleThenBlank == "RuleThenBlank" \notin fails
InvAccepts == "Accepts" \notin fails
=============================================================================
