------------------------------ MODULE PickFile ------------------------------
(***************************************************************************)
(* Which policy file an Enforcer uses (policy.pick_default_policy_file and *)
(* the constructor).                                                       *)
(*   arg      explicit policy_file constructor argument ("" = none)        *)
(*   loc      how the policy_file option got its value: "opt_default"      *)
(*            (left alone), "set_default" (library default changed by the  *)
(*            service), "user" (config file), "set_override"               *)
(*   val      value of the option                                          *)
(*   hasYaml / hasJson   policy.yaml / policy.json exist in the config dir *)
(*   fallback the fallback_to_json_file switch                             *)
(***************************************************************************)
EXTENDS Naturals, TLC

\* operational: as pick_default_policy_file is written
PickOp(arg, loc, val, hasYaml, hasJson, fallback) ==
  IF arg # "" THEN arg
  ELSE IF val = "policy.yaml" /\ fallback
       THEN IF hasYaml THEN "policy.yaml"
            ELSE IF loc \in {"opt_default", "set_default"} /\ hasJson THEN "policy.json"
            ELSE val
       ELSE val

\* the sentence of C09
NeverConfigured(loc) == loc \in {"opt_default", "set_default"}
PickDecl(arg, loc, val, hasYaml, hasJson, fallback) ==
  IF arg # "" THEN arg                                         \* the one given to the enforcer
  ELSE IF fallback /\ NeverConfigured(loc) /\ val = "policy.yaml" /\ ~hasYaml /\ hasJson
       THEN "policy.json"                                      \* legacy file of a deployment that never configured it
       ELSE val                                                \* the configured one
=============================================================================
