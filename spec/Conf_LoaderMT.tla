--------------------------- MODULE Conf_LoaderMT ---------------------------
(***************************************************************************)
(* Validation of schedules enumerated on the real code (harness/sched.py). *)
(* One case = one schedule of two threads on one real Enforcer around one  *)
(* edit of the policy files (the scenario is a constant of the run):       *)
(*   shape   "A_parked": the reloading call is suspended at a line         *)
(*           boundary, the other call runs to completion, then it resumes  *)
(*           "B_parked": a call that started before the edit is suspended, *)
(*           the files are edited, a second call reloads completely, the   *)
(*           first resumes                                                 *)
(*           "BA_parked:<phase>": the first call is suspended after its    *)
(*           own load step / after its look-up, the files are edited, the  *)
(*           reloading call is suspended at a line boundary, the first     *)
(*           call completes, then the reloader                             *)
(*   rules, frules  projection of Enforcer.rules / file_rules at the park  *)
(*           point (name -> body, sequences of pairs)                      *)
(*   q, role, allow   the decision under test (of the thread that ran to   *)
(*           completion while the other was parked, or of the parked one)  *)
(*   final   decisions of the enforcer once both calls returned            *)
(***************************************************************************)
EXTENDS MC_LoaderMT, Json, IOUtils
Cases == JsonDeserialize(IOEnv.VERIF_CASES)
VARIABLES cid, cph, ok, drift,
          aok     \* the decision itself is the old or the new policy's (without the settled-state part of the verdict)
cvars == <<cid, cph, ok, drift, aok, vars>>
ToSet(s) == {s[i] : i \in 1..Len(s)}
Body2(b) == CASE b.k = "roles" -> RolesB(ToSet(b.r)) [] b.k = "alias" -> Alias(b.n) [] b.k = "any" -> AnyB [] OTHER -> None
Cont(pairs) == [n \in Names |-> IF \E i \in 1..Len(pairs) : pairs[i][1] = n
                               THEN Body2(pairs[CHOOSE i \in 1..Len(pairs) : pairs[i][1] = n][2]) ELSE None]

\* shared states the specification's reloader passes through, run alone
RECURSIVE StatesFrom(_, _)
StatesFrom(s, l) == IF l.pc = "done" THEN {[rules |-> s.rules, frules |-> s.frules]}
                    ELSE LET x == Step(s, l, FsNew, DirSt) IN {[rules |-> s.rules, frules |-> s.frules]} \cup StatesFrom(x.sh, x.lo)
ReloadStates == StatesFrom(OldShared, InitLocal("n"))

Atomic(c) == LET dec == IF c.allow = 1 THEN {c.role} ELSE {} IN
             ((c.role \in dec) = (c.role \in OldDec(c.q))) \/ ((c.role \in dec) = (c.role \in NewDec(c.q)))
Settled(c) == \A n \in Names : ToSet(c.final[n]) = NewDec(n) \cap ToSet(c.roles)
Verdict(c) == c.crashed = 0 /\ Atomic(c) /\ (c.check_final = 1 => Settled(c))
\* binding of the model to the code's internals (a mismatch is reported as
\* MODEL-DRIFT, never as a violation): the projected state at the park point
\* of the reloader is one the specification's reloader passes through
Bound(c) == c.shape # "B_parked" => [rules |-> Cont(c.rules), frules |-> Cont(c.frules)] \in ReloadStates

CInit == /\ cid \in 1..Len(Cases) /\ cph = 0 /\ ok = TRUE /\ drift = FALSE /\ aok = TRUE
         /\ sh = OldShared /\ fs = FsOld /\ edited = FALSE /\ lock = 0 /\ lo = [t \in Threads |-> Idle("n")]
         /\ startedAfterEdit = [t \in Threads |-> FALSE]
CNext == cph = 0 /\ cph' = 1 /\ ok' = Verdict(Cases[cid]) /\ drift' = ~Bound(Cases[cid])
         /\ aok' = (Cases[cid].crashed = 0 /\ Atomic(Cases[cid])) /\ UNCHANGED <<cid, vars>>
CSpec == CInit /\ [][CNext]_cvars
Conforms == ok
AtomicOK == aok
NoDrift == ~drift
=============================================================================
