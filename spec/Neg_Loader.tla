----------------------------- MODULE Neg_Loader -----------------------------
(* Negative controls for the loader: directory changes never noticed; the   *)
(* alias exception of the deprecation table dropped                          *)
EXTENDS MC_Loader
M_DirsNeverUpdated(s, f, d) == FALSE
M_HandleDeprecatedNoAliasException(p_d, p_fr, p_en) ==
  IF p_d.dep.name # p_d.name /\ p_d.dep.name \in Names /\ p_fr[p_d.dep.name].k # "none"
     /\ p_fr[p_d.name].k = "none"
  THEN p_fr[p_d.dep.name]
  ELSE IF ~p_en /\ p_d.dep.body # p_d.body /\ p_fr[p_d.name].k = "none"
       THEN OrBody(p_d.body, p_d.dep.body)
       ELSE p_d.body
\* the OR with the old default also when enforce_new_defaults is on
M_HandleDeprecatedAlwaysOr(p_d, p_fr, p_en) ==
  IF p_d.dep.name # p_d.name /\ p_d.dep.name \in Names /\ p_fr[p_d.dep.name].k # "none"
     /\ p_fr[p_d.dep.name] # Alias(p_d.name) /\ p_fr[p_d.name].k = "none"
  THEN p_fr[p_d.dep.name]
  ELSE IF p_d.dep.body # p_d.body /\ p_fr[p_d.name].k = "none" THEN OrBody(p_d.body, p_d.dep.body) ELSE p_d.body
=============================================================================
