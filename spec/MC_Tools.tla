------------------------------ MODULE MC_Tools ------------------------------
(***************************************************************************)
(* C18 at design level: every main policy file over the names              *)
(* {n, n2, o, u} (registered, second successor, deprecated, unknown) with  *)
(* values {absent, equal to the default, a different rule, the alias       *)
(* rule:n}, optionally one directory file, against the default sets plain  *)
(* / renamed / split / same-name change.  Files that define both a         *)
(* deprecated name and a successor are excluded (the statement's           *)
(* exclusion); for generator / redundancy also overrides under a           *)
(* deprecated name.                                                        *)
(***************************************************************************)
EXTENDS Tools

CONSTANT Variant

TNames == {"n", "n2", "o", "u"}
TDirs == <<"d1">>
TLoadable == [d \in {"d1"} |-> <<"d1/a">>]
TIgnored == [d \in {"d1"} |-> {}]
NoDep == [name |-> "", body |-> None]
TDefaults ==
  CASE Variant = "plain"   -> << [name |-> "n", body |-> RolesB({"dflt"}), dep |-> NoDep, removal |-> 0] >>
    [] Variant = "renamed" -> << [name |-> "n", body |-> RolesB({"dflt"}), dep |-> [name |-> "o", body |-> RolesB({"old"})], removal |-> 0] >>
    [] Variant = "same"    -> << [name |-> "n", body |-> RolesB({"dflt"}), dep |-> [name |-> "n", body |-> RolesB({"old"})], removal |-> 0] >>
    [] Variant = "split"   -> << [name |-> "n", body |-> RolesB({"dflt"}), dep |-> [name |-> "o", body |-> RolesB({"old"})], removal |-> 0],
                                 [name |-> "n2", body |-> RolesB({"old"}), dep |-> [name |-> "o", body |-> RolesB({"old"})], removal |-> 0] >>

VARIABLES main, dfile, ph, fails
vars == <<main, dfile, ph, fails>>

Values(n) == {None, RolesB({"x"}), AnyRule} \cup (IF IsReg(n) THEN {Dflt(n).body} ELSE {}) \cup (IF n = "o" THEN {Alias("n"), RolesB({"old"})} ELSE {})
Contents == {c \in [Names -> UNION {Values(n) : n \in Names}] : \A n \in Names : c[n] \in Values(n)}

\* the statement's exclusion: both a deprecated name and one of its successors
Conflicting(c) == \E i \in 1..Len(Defaults) : LET d == Defaults[i] IN
                     d.dep.name # "" /\ d.dep.name # d.name /\ d.dep.name \in Names /\ c[d.dep.name].k # "none" /\ c[d.name].k # "none"
Init == /\ main \in {c \in Contents : ~Conflicting(c)}
        /\ dfile \in {NoRules} \cup {[NoRules EXCEPT ![n] = v] : n \in {"n", "n2", "u"}, v \in {RolesB({"y"}), RolesB({"dflt"})}}
        /\ ph = 0 /\ fails = {}

Dirs1 == [d \in {"d1"} |-> [exists |-> TRUE, mtime |-> 1]]
Fs(c, dc) == [f \in {"main", "d1/a"} |-> IF f = "main" THEN [exists |-> TRUE, mtime |-> 1, content |-> c]
                                         ELSE [exists |-> dc # NoRules, mtime |-> 1, content |-> dc]]
\* decisions under the default configuration (enforce_new_defaults on)
Dec(c, dc) == Decisions(FreshPolicy(Fs(c, dc), Dirs1, TRUE))
Survive(S) == Names \ S
Same(a, b, S) == \A n \in S : a[n] = b[n]

ConvertPreserves == Same(Dec(Convert(main), NoRules), Dec(main, NoRules), Names)
UpgradePreserves == Same(Dec(Upgrade(main), NoRules), Dec(main, NoRules), Survive(Vanished))
\* negative control (expected to FAIL): the shipped algorithm on alias files
ShippedUpgradePreserves == Same(Dec(UpgradeAsShipped(main), NoRules), Dec(main, NoRules), Survive(Vanished))
\* for the generator and the redundancy list: each name in at most one file,
\* no operator override under a deprecated name
GenDomain == /\ \A n \in Names : ~(main[n].k # "none" /\ dfile[n].k # "none")
             /\ \A n \in DeprecatedNames \ {m \in Names : IsReg(m)} : main[n].k = "none" /\ dfile[n].k = "none"
GeneratePreserves == GenDomain => Same(Dec(Generate(Fs(main, dfile), Dirs1), NoRules), Dec(main, dfile), Survive(Vanished))
RedundantDeletable == GenDomain =>
   LET r == Redundant(Fs(main, dfile), Dirs1) IN Same(Dec(Without(main, r), Without(dfile, r)), Dec(main, dfile), Names)

Holds == [n \in {"ConvertPreserves", "UpgradePreserves", "GeneratePreserves", "RedundantDeletable", "ShippedUpgradePreserves"} |->
            CASE n = "ConvertPreserves" -> ConvertPreserves
              [] n = "UpgradePreserves" -> UpgradePreserves
              [] n = "GeneratePreserves" -> GeneratePreserves
              [] n = "RedundantDeletable" -> RedundantDeletable
              [] n = "ShippedUpgradePreserves" -> ShippedUpgradePreserves]
Evaluate == ph = 0 /\ ph' = 1 /\ fails' = {n \in DOMAIN Holds : ~Holds[n]} /\ UNCHANGED <<main, dfile>>
Next == Evaluate
Spec == Init /\ [][Next]_vars
InvConvertPreserves == "ConvertPreserves" \notin fails
InvUpgradePreserves == "UpgradePreserves" \notin fails
InvGeneratePreserves == "GeneratePreserves" \notin fails
InvRedundantDeletable == "RedundantDeletable" \notin fails
NegShippedUpgrade == "ShippedUpgradePreserves" \notin fails
=============================================================================
