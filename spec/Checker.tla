------------------------------ MODULE Checker ------------------------------
(***************************************************************************)
(* oslopolicy-checker (oslo_policy/shell.py): credentials and target are   *)
(* derived from a token file and an optional target file; every policy     *)
(* name containing a colon (in sorted order), or only the requested rule,  *)
(* gets the verdict the library's evaluation gives for those inputs, with  *)
(* the default rule "default".                                             *)
(***************************************************************************)
EXTENDS PolicyEval

T(s) == s       \* code point sequences are written out below
KName == <<110, 97, 109, 101>>                  \* "name"
KUser == <<117, 115, 101, 114>>                 \* "user"
KId == <<105, 100>>                             \* "id"
KProject == <<112, 114, 111, 106, 101, 99, 116>>    \* "project"
KUserId == <<117, 115, 101, 114, 95, 105, 100>>     \* "user_id"
KProjectId == <<112, 114, 111, 106, 101, 99, 116, 95, 105, 100>>   \* "project_id"
KIsAdmin == <<105, 115, 95, 97, 100, 109, 105, 110>>               \* "is_admin"
KRolesC == <<114, 111, 108, 101, 115>>
Colon == 58
Dot == 46

SetKey(d, key, v) ==
  IF HasKey(d, key) THEN [d EXCEPT !.e = [i \in 1..Len(d.e) |-> IF d.e[i][1] = key THEN <<key, v>> ELSE d.e[i]]]
  ELSE [d EXCEPT !.e = Append(d.e, <<key, v>>)]
ScalarV(s, y) == [t |-> "s", s |-> s, y |-> y]

\* tool(): access_data derived from token["token"]
DeriveCreds(tok, isAdmin) ==
  LET r == Get(tok, KRolesC)
      names == [t |-> "l", s |-> <<0>>, e |-> [i \in 1..Len(r.e) |-> Get(r.e[i], KName)]]
      c1 == SetKey(tok, KRolesC, names)
      c2 == SetKey(c1, KUserId, Get(Get(tok, KUser), KId))
      c3 == IF HasKey(tok, KProject) /\ Truthy(Get(tok, KProject)) THEN SetKey(c2, KProjectId, Get(Get(tok, KProject), KId)) ELSE c2
      c4 == IF HasKey(tok, KSystem) /\ Truthy(Get(tok, KSystem)) THEN SetKey(c3, KSystemScope, ScalarV(<<97, 108, 108>>, 1)) ELSE c3
  IN SetKey(c4, KIsAdmin, ScalarV(IF isAdmin THEN <<84, 114, 117, 101>> ELSE <<70, 97, 108, 115, 101>>, IF isAdmin THEN 1 ELSE 0))

\* flatten(): nested mappings to dotted keys
RECURSIVE FlatE(_, _)
FlatE(d, prefix) ==
  LET RECURSIVE Go(_)
      Go(i) == IF i > Len(d.e) THEN <<>>
               ELSE (IF d.e[i][2].t = "d" THEN FlatE(d.e[i][2], prefix \o d.e[i][1] \o <<Dot>>)
                     ELSE << <<prefix \o d.e[i][1], d.e[i][2]>> >>) \o Go(i + 1)
  IN Go(1)
Flatten(d) == [t |-> "d", s |-> <<0>>, e |-> FlatE(d, <<>>)]

DefaultTarget(creds) ==
  LET t1 == [t |-> "d", s |-> <<0>>, e |-> << <<KUserId, Get(creds, KUserId)>> >>]
  IN IF HasKey(creds, KProjectId) /\ Truthy(Get(creds, KProjectId)) THEN SetKey(t1, KProjectId, Get(creds, KProjectId)) ELSE t1

\* lexicographic order on code point sequences (Python's order on str)
RECURSIVE Less(_, _)
Less(a, b) == IF Len(a) = 0 THEN Len(b) > 0
              ELSE IF Len(b) = 0 THEN FALSE
              ELSE IF a[1] # b[1] THEN a[1] < b[1]
              ELSE Less(Tail(a), Tail(b))
HasColon(n) == \E i \in 1..Len(n) : n[i] = Colon
\* insertion sort of rule records by name
RECURSIVE Insert(_, _), SortRules(_)
Insert(s, r) == IF Len(s) = 0 THEN <<r>>
                ELSE IF Less(r.cps, s[1].cps) THEN <<r>> \o s
                ELSE <<s[1]>> \o Insert(Tail(s), r)
SortRules(s) == IF Len(s) = 0 THEN <<>> ELSE Insert(SortRules(Tail(s)), s[1])

\* rules: sequence of [name (string), cps (its code points), tree]
\* expected output: sequence of <<verdict, name>>
Verdicts(rules, creds, target, lowmap, requested) ==
  LET store == [i \in 1..Len(rules) |-> <<rules[i].name, rules[i].tree>>]
      env(n) == [target |-> target, creds |-> creds, rules |-> store, dflt |-> [t |-> "name", v |-> "default"],
                 lowmap |-> lowmap, loose |-> FALSE, http |-> [fault |-> "none", body |-> <<>>], cur |-> n]
      verdict(n) == LET l == Lookup(store, [t |-> "name", v |-> "default"], n)
                        e == Ev(l.tree, env(n), Fuel)
                    IN IF e.r THEN "passed" ELSE "failed"
  IN IF requested # "" THEN << <<verdict(requested), requested>> >>
     ELSE LET listed == SelectSeq(rules, LAMBDA r : HasColon(r.cps))
              sorted == SortRules(listed)
          IN [i \in 1..Len(sorted) |-> <<verdict(sorted[i].name), sorted[i].name>>]
=============================================================================
