---------------------------- MODULE MC_LoaderMT ----------------------------
(***************************************************************************)
(* Two threads call enforce on one enforcer while the policy files change  *)
(* once (Edit), in every interleaving of their micro-steps.                *)
(*   AtomicDecision   every decision equals the one under the complete old *)
(*                    or the complete new policy  (C20)                    *)
(*   SettledCorrect   when both calls have returned (and the edit was      *)
(*                    seen) the rule store is the new policy               *)
(* Locked = TRUE models the obvious repair (one lock held over the whole   *)
(* call): then both hold.  Locked = FALSE is the code as it is.            *)
(***************************************************************************)
EXTENDS LoaderMT

CONSTANTS Scenario, Locked

MTNames == {"n", "m", "o", "u", "default"}
MTDirs == <<"d1">>
MTLoadable == [d \in {"d1"} |-> <<"d1/a", "d1/b">>]      \* d1/b exists in one scenario only
MTIgnored == [d \in {"d1"} |-> {}]
MTRoles == {"a", "b", "d1r", "d2r", "dflt", "old", "nobody"}
MTOrder == <<"default", "m", "n", "o", "u">>      \* the harness writes files with sorted keys
NoDep == [name |-> "", body |-> None]
MTDefaults ==
  CASE Scenario \in {"main_edit_dir_override", "dir_edit", "alias_eval", "dir_edit_linked", "merge_mode_dir_edit", "dir_two_files"} -> <<>>
    [] Scenario \in {"defaults_permissive", "empty_main_dir_edit", "dir_only_edit"} -> << [name |-> "n", body |-> RolesB({"dflt"}), dep |-> NoDep, removal |-> 0] >>
    \* (this registered default is marked deprecated for removal: a flag that changes warnings, not decisions)
    [] Scenario = "defaults_override_removed" -> << [name |-> "n", body |-> RolesB({"dflt"}), dep |-> NoDep, removal |-> 1] >>
    [] Scenario \in {"deprecated", "deprecated_override_removed", "deprecated_alias_old_defaults"} -> << [name |-> "n", body |-> RolesB({"dflt"}), dep |-> [name |-> "o", body |-> RolesB({"old"})], removal |-> 0] >>

File(c, t) == [exists |-> TRUE, mtime |-> t, content |-> c]
Gone == [exists |-> FALSE, mtime |-> 0, content |-> NoRules]
C1(n, b) == [NoRules EXCEPT ![n] = b]
C2(n1, b1, n2, b2) == [NoRules EXCEPT ![n1] = b1, ![n2] = b2]
\* file system before and after the edit
FsOldAB ==
  CASE Scenario = "main_edit_dir_override" -> [f \in {"main", "d1/a"} |-> IF f = "main" THEN File(C2("n", RolesB({"a"}), "m", RolesB({"a"})), 1) ELSE File(C1("n", RolesB({"d1r"})), 1)]
    [] Scenario = "dir_edit"               -> [f \in {"main", "d1/a"} |-> IF f = "main" THEN File(C2("n", RolesB({"a"}), "m", RolesB({"a"})), 1) ELSE File(C1("n", RolesB({"d1r"})), 1)]
    [] Scenario = "defaults_permissive"    -> [f \in {"main", "d1/a"} |-> IF f = "main" THEN File(C2("default", AnyB, "m", RolesB({"a"})), 1) ELSE Gone]
    [] Scenario = "deprecated"             -> [f \in {"main", "d1/a"} |-> IF f = "main" THEN File(C1("o", RolesB({"a"})), 1) ELSE Gone]
    [] Scenario = "alias_eval"             -> [f \in {"main", "d1/a"} |-> IF f = "main" THEN File(C2("n", Alias("m"), "m", RolesB({"a"})), 1) ELSE Gone]
    \* a directory file whose rules refer to one another, edited as a whole
    [] Scenario = "dir_edit_linked"        -> [f \in {"main", "d1/a"} |-> IF f = "main" THEN File(C1("u", RolesB({"a"})), 1) ELSE File(C2("n", Alias("m"), "m", RolesB({"a"})), 1)]
    \* an enforcer in merge mode (overwrite off)
    [] Scenario = "merge_mode_dir_edit"    -> [f \in {"main", "d1/a"} |-> IF f = "main" THEN File(C2("n", RolesB({"a"}), "m", RolesB({"a"})), 1) ELSE File(C1("n", RolesB({"d1r"})), 1)]
    \* a directory with two files: the first one is re-applied unchanged while the second one was edited
    [] Scenario = "dir_two_files"          -> [f \in {"main", "d1/a"} |-> IF f = "main" THEN File(C2("n", RolesB({"a"}), "m", RolesB({"a"})), 1) ELSE File(C1("n", RolesB({"d1r"})), 1)]
    \* the operator's override of a registered default is taken out of the main file (permissive default rule)
    [] Scenario = "defaults_override_removed" -> [f \in {"main", "d1/a"} |-> IF f = "main" THEN File(C2("default", AnyB, "n", RolesB({"a"})), 1) ELSE Gone]
    \* the override of the deprecated name is taken out of the main file (another rule of the file changes too)
    [] Scenario = "deprecated_override_removed" -> [f \in {"main", "d1/a"} |-> IF f = "main" THEN File(C2("o", RolesB({"a"}), "m", RolesB({"a"})), 1) ELSE Gone]
    \* the file mentions the deprecated name only as an alias of the new one; enforce_new_defaults is off
    [] Scenario = "deprecated_alias_old_defaults" -> [f \in {"main", "d1/a"} |-> IF f = "main" THEN File(C2("o", Alias("n"), "m", RolesB({"a"})), 1) ELSE Gone]
    \* no main policy file at all: every rule comes from the policy directory
    [] Scenario = "dir_only_edit" -> [f \in {"main", "d1/a"} |-> IF f = "main" THEN Gone ELSE File(C2("n", RolesB({"d1r"}), "m", RolesB({"a"})), 1)]
    \* policy in code: the main file exists and defines nothing, the operator's overrides live in the directory
    [] Scenario = "empty_main_dir_edit"    -> [f \in {"main", "d1/a"} |-> IF f = "main" THEN File(NoRules, 1) ELSE File(C1("n", RolesB({"d1r"})), 1)]
FsNewAB ==
  CASE Scenario = "main_edit_dir_override" -> [FsOldAB EXCEPT !["main"] = File(C2("n", RolesB({"b"}), "m", RolesB({"a"})), 2)]
    [] Scenario = "dir_edit"               -> [FsOldAB EXCEPT !["d1/a"] = File(C1("n", RolesB({"d2r"})), 2)]
    [] Scenario = "defaults_permissive"    -> [FsOldAB EXCEPT !["main"] = File(C2("default", AnyB, "m", RolesB({"b"})), 2)]
    [] Scenario = "deprecated"             -> [FsOldAB EXCEPT !["main"] = File(C1("o", RolesB({"b"})), 2)]
    [] Scenario = "alias_eval"             -> [FsOldAB EXCEPT !["main"] = File(C2("n", RolesB({"b"}), "m", RolesB({"d2r"})), 2)]
    [] Scenario = "dir_edit_linked"        -> [FsOldAB EXCEPT !["d1/a"] = File([NoRules EXCEPT !["m"] = RolesB({"b"}), !["n"] = Alias("o"), !["o"] = RolesB({"a"})], 2)]
    [] Scenario = "merge_mode_dir_edit"    -> [FsOldAB EXCEPT !["d1/a"] = File(C1("n", RolesB({"d2r"})), 2)]
    [] Scenario = "dir_two_files"          -> FsOldAB
    [] Scenario = "empty_main_dir_edit"    -> [FsOldAB EXCEPT !["d1/a"] = File(C1("n", RolesB({"d1r", "d2r"})), 2)]
    [] Scenario = "defaults_override_removed" -> [FsOldAB EXCEPT !["main"] = File(C1("default", AnyB), 2)]
    [] Scenario = "deprecated_override_removed" -> [FsOldAB EXCEPT !["main"] = File(C1("m", RolesB({"b"})), 2)]
    [] Scenario = "dir_only_edit" -> [FsOldAB EXCEPT !["d1/a"] = File(C1("m", RolesB({"b"})), 2)]
    [] Scenario = "deprecated_alias_old_defaults" -> [FsOldAB EXCEPT !["main"] = File(C2("o", Alias("n"), "m", RolesB({"b"})), 2)]
TwoFiles == Scenario = "dir_two_files"
FsOld == [f \in {"main", "d1/a", "d1/b"} |-> IF f = "d1/b" THEN (IF TwoFiles THEN File(C1("m", RolesB({"b"})), 1) ELSE Gone) ELSE FsOldAB[f]]
FsNew == [f \in {"main", "d1/a", "d1/b"} |-> IF f = "d1/b" THEN (IF TwoFiles THEN File(C1("m", RolesB({"d2r"})), 2) ELSE Gone) ELSE FsNewAB[f]]
DirSt == [d \in {"d1"} |-> [exists |-> TRUE, mtime |-> 1]]
\* what is asked: the rule the edit concerns; a rule that lives only in the (unchanged part
\* of the) main file; an undeclared name that resolves through the permissive default rule
Query == CASE Scenario \in {"main_edit_dir_override", "dir_edit", "dir_edit_linked", "merge_mode_dir_edit", "dir_two_files", "deprecated_override_removed", "dir_only_edit", "deprecated_alias_old_defaults"} -> {"n", "m"}
           [] Scenario = "defaults_permissive" -> {"n", "u", "m"}
           [] OTHER -> {"n"}

VARIABLES sh, lo, fs, edited, lock, startedAfterEdit
vars == <<sh, lo, fs, edited, lock, startedAfterEdit>>
Threads == {1, 2}

OldShared == Settle(EmptyShared, FsOld, DirSt)
NewShared == Settle(OldShared, FsNew, DirSt)
OldDec(n) == DecD(OldShared.rules, n)
NewDec(n) == DecD(NewShared.rules, n)

Idle(q) == [InitLocal(q) EXCEPT !.pc = "idle"]
Init == /\ sh = OldShared /\ fs = FsOld /\ edited = FALSE /\ lock = 0
        /\ lo \in [Threads -> {Idle(q) : q \in Query}]
        /\ startedAfterEdit = [t \in Threads |-> FALSE]

Edit == ~edited /\ edited' = TRUE /\ fs' = FsNew /\ UNCHANGED <<sh, lo, lock, startedAfterEdit>>
Start(t) == /\ lo[t].pc = "idle" /\ (Locked => lock = 0)
            /\ lo' = [lo EXCEPT ![t].pc = "read_main"]
            /\ lock' = IF Locked THEN t ELSE lock
            /\ startedAfterEdit' = [startedAfterEdit EXCEPT ![t] = edited]
            /\ UNCHANGED <<sh, fs, edited>>
Micro(t) == /\ lo[t].pc \notin {"idle", "done"}
            /\ LET s == Step(sh, lo[t], fs, DirSt) IN
               /\ sh' = s.sh /\ lo' = [lo EXCEPT ![t] = s.lo]
               /\ lock' = IF Locked /\ s.lo.pc = "done" THEN 0 ELSE lock
            /\ UNCHANGED <<fs, edited, startedAfterEdit>>
Next == Edit \/ \E t \in Threads : Start(t) \/ Micro(t)
Spec == Init /\ [][Next]_vars

AtomicDecision == \A t \in Threads : lo[t].pc = "done" => OldOrNew(lo[t].dec, OldDec(lo[t].q), NewDec(lo[t].q))
SettledCorrect == (\A t \in Threads : lo[t].pc = "done") /\ (\E t \in Threads : startedAfterEdit[t])
                     => \A n \in Names : DecD(sh.rules, n) = NewDec(n)
\* window in which a wrong decision was taken: what the OTHER thread was doing
\* when this thread fetched the check (printed in counterexamples only)
=============================================================================
