----------------------------- MODULE Conf_Tools -----------------------------
(***************************************************************************)
(* Conformance of real tool runs with C18.  A case: tool, main / dfile     *)
(* (abstract contents: sequence of <<name, body>>), before / after         *)
(* (decisions name -> roles allowed, observed on real Enforcers over the   *)
(* operator's policy and over the tool's output), crashed, and for         *)
(* list-redundant the reported names.                                      *)
(***************************************************************************)
EXTENDS MC_Tools, Json, IOUtils
Cases == JsonDeserialize(IOEnv.VERIF_CASES)
VARIABLES cid, cph, ok
cvars == <<cid, cph, ok, vars>>
ToSet(s) == {s[i] : i \in 1..Len(s)}
Cont(pairs) == [n \in Names |-> IF \E i \in 1..Len(pairs) : pairs[i][1] = n
                               THEN LET b == pairs[CHOOSE i \in 1..Len(pairs) : pairs[i][1] = n][2]
                                    IN IF b.k = "roles" THEN RolesB(ToSet(b.r)) ELSE IF b.k = "any" THEN AnyRule ELSE Alias(b.n)
                               ELSE None]
\* a name that allows every role of the harness' universe is written {"*"}
Star(S, all) == IF S = ToSet(all) THEN {"*"} ELSE S
ObsN(d, all) == [n \in Names |-> Star(CASE n = "n" -> ToSet(d.n) [] n = "n2" -> ToSet(d.n2) [] n = "o" -> ToSet(d.o) [] n = "u" -> ToSet(d.u), all)]
Verdict(c) ==
  LET m == Cont(c.main)
      df == Cont(c.dfile)
      surv == IF c.tool \in {"upgrade", "generate"} THEN Survive(Vanished) ELSE Names
  IN /\ c.crashed = 0                                          \* the tools complete for every valid file
     /\ ObsN(c.before, c.roles) = Dec(m, df)                             \* the operator's policy decides as the layering says
     /\ Same(ObsN(c.after, c.roles), ObsN(c.before, c.roles), surv)                \* ... and so does the tool's output
     /\ (c.tool = "redundant" => ToSet(c.reported) = Redundant(Fs(m, df), Dirs1))
CInit == cid \in 1..Len(Cases) /\ cph = 0 /\ ok = TRUE /\ main = NoRules /\ dfile = NoRules /\ ph = 0 /\ fails = {}
CNext == cph = 0 /\ cph' = 1 /\ ok' = Verdict(Cases[cid]) /\ UNCHANGED <<cid, vars>>
CSpec == CInit /\ [][CNext]_cvars
Conforms == ok
=============================================================================
