------------------------------ MODULE Register ------------------------------
(***************************************************************************)
(* Beyond the listed properties: the constructor contracts of RuleDefault  *)
(* / DocumentedRuleDefault and Enforcer.register_default, as a table.      *)
(*  dep      "none" / "ok" / "wrongtype"   the deprecated_rule argument    *)
(*  removal  deprecated_for_removal                                        *)
(*  reason, since   "none" / "text"                                        *)
(*  scope    "none" / "empty" / "ok" / "notlist" / "nonstr" / "dup"        *)
(*  documented, desc ("none"/"empty"/"text"),                              *)
(*  ops      "notlist" / "empty" / "ok" / "nopath" / "nomethod" / "three"  *)
(*  dupname  the name is already registered with the enforcer              *)
(* Outcome: "ok" or the exception class, in the order the code checks.     *)
(***************************************************************************)
EXTENDS Naturals, TLC

RuleDefaultOutcome(a) ==
  IF a.dep = "wrongtype" THEN "ValueError"
  ELSE IF a.removal = 1 /\ (a.reason = "none" \/ a.since = "none") THEN "ValueError"
  ELSE IF a.scope \in {"notlist", "nonstr", "dup"} THEN "ValueError"
  ELSE "ok"

Construct(a) ==
  LET base == RuleDefaultOutcome(a) IN
  IF base # "ok" THEN base
  ELSE IF a.documented = 0 THEN "ok"
  ELSE IF a.desc \in {"none", "empty"} THEN "InvalidRuleDefault"
  ELSE IF a.ops \in {"notlist", "empty", "nopath", "nomethod", "three"} THEN "InvalidRuleDefault"
  ELSE "ok"

RegisterOutcome(a) ==
  LET c == Construct(a) IN IF c # "ok" THEN c ELSE IF a.dupname = 1 THEN "DuplicatePolicyError" ELSE "ok"
=============================================================================
