---------------------------- MODULE Trace_Loader ----------------------------
(***************************************************************************)
(* Validation of recorded histories of the real loader against MC_Loader's *)
(* actions.  A trace is a sequence of events                               *)
(*   [op |-> "write", f, kind, t]   [op |-> "empty"/"touch"/"delete", f, t] *)
(*   [op |-> "ignored", f, t]                                               *)
(*   [op |-> "load", force (0/1), dec, fresh]                               *)
(* where t is the modification time the harness gave the change (it must   *)
(* be the specification's clock), dec the decisions of the long-lived      *)
(* enforcer observed after the load (name -> list of single roles that are *)
(* allowed) and fresh those of a newly constructed enforcer on the same    *)
(* files.  Every event must be explained by the corresponding action and   *)
(* the observed decisions must be those of the specification state (C10),  *)
(* of the declarative layering (C09/C11), and equal to each other.         *)
(***************************************************************************)
EXTENDS MC_Loader, Json, IOUtils

Traces == JsonDeserialize(IOEnv.VERIF_CASES)

VARIABLES cid, l, ok, why,
          wok     \* beyond the listed properties: the deprecation warnings were the specified ones (drift only)
tvars == <<vars, cid, l, ok, why, wok>>

ToSet(s) == {s[i] : i \in 1..Len(s)}
\* the decisions are observed on a list of probe roles (e.roles); allowing every one of them is written {"*"}
Star(S, all) == IF all # {} /\ S = all THEN {"*"} ELSE S
ObsA(d, all) == [n \in Names |-> Star(CASE n = "n" -> ToSet(d.n) [] n = "n2" -> ToSet(d.n2) [] n = "o" -> ToSet(d.o), all)]

\* the first event of a trace ("boot") says whether the policy directories existed when the enforcer was built
TInit == Init /\ cid \in 1..Len(Traces) /\ l = 1 /\ ok = TRUE /\ why = "-" /\ wok = TRUE
              /\ (dirs["d1"].exists <=> Traces[cid][1].de = 1)

Ev == Traces[cid][l]
\* the boot event also says whether a default rule is configured (dr = 1: policy_default_rule names a registered
\* helper policy that allows the role "dflt"; dr = 0: the default rule names nothing defined)
DefaultAllows == IF Traces[cid][1].dr = 1 THEN {"dflt"} ELSE {}
Step(e) ==
  CASE e.op = "write"   -> Write(e.f, e.kind) /\ ok' = (ok /\ clock' = e.t) /\ why' = IF clock' = e.t THEN why ELSE "clock"
    [] e.op = "empty"   -> Empty(e.f) /\ ok' = (ok /\ clock' = e.t) /\ why' = why
    [] e.op = "touch"   -> Touch(e.f) /\ ok' = (ok /\ clock' = e.t) /\ why' = why
    [] e.op = "delete"  -> Delete(e.f) /\ ok' = (ok /\ clock' = e.t) /\ why' = why
    [] e.op = "replace" -> Replace(e.f, e.kind, e.older = 1) /\ ok' = (ok /\ clock' = e.t) /\ why' = why
    [] e.op = "ignored" -> TouchIgnored(e.f) /\ ok' = (ok /\ clock' = e.t) /\ why' = why
    [] e.op = "boot" -> UNCHANGED vars /\ ok' = ok /\ why' = why
    [] e.op = "register" -> RegisterNext /\ ok' = ok /\ why' = why
    [] e.op = "setopt"  -> SetOption(e.v = 1) /\ ok' = ok /\ why' = why
    [] e.op = "load"    ->
         /\ Load(e.force = 1)
         /\ LET specDec == DecisionsWith(st'.rules, DefaultAllows)
                layered == DecisionsWith(FreshPolicyN(fs, dirs, enfnew, nreg), DefaultAllows)
                c10 == ObsA(e.dec, ToSet(e.roles)) = specDec            \* long-lived enforcer follows the specification
                c09 == ObsA(e.fresh, ToSet(e.roles)) = layered          \* a fresh enforcer computes the layering sentence
                eq  == DefaultMode => ObsA(e.dec, ToSet(e.roles)) = ObsA(e.fresh, ToSet(e.roles))       \* C10 itself (default overwrite mode)
                \* C12: a load directly after a load prints the same rule set; the
                \* caller-owned default objects are never altered
                idem == (synced /\ (Overwrite \/ ~removed \/ e.force = 0)) => e.printsame = 1
                frozen == e.shared = 1
                \* C09: scope types come from the registered default: a
                \* system-scoped token is refused for a project-scoped default
                \* whatever the files say
                scope == e.scopeblk = 1
                \* beyond the listed properties: the deprecation warnings of this call (recorded only
                \* when the harness switched them on)
                warn == e.warnon = 1 => e.warn = LoadWarnings(st, fs, dirs, e.force = 1, enfnew, Overwrite, nreg)
            IN /\ ok' = (ok /\ c10 /\ c09 /\ eq /\ e.raised = 0 /\ idem /\ frozen /\ scope)
               /\ wok' = (wok /\ warn)
               /\ why' = IF ~ok THEN why
                         ELSE IF e.raised = 1 THEN "load-or-enforce-raised"
                         ELSE IF ~frozen THEN "registered-objects-mutated"
                         ELSE IF ~idem THEN "reload-changed-printed-policy"
                         ELSE IF ~scope THEN "scope-types-not-from-default"
                         ELSE IF ~eq THEN "long-lived-differs-from-fresh"
                         ELSE IF ~c09 THEN "fresh-differs-from-layering"
                         ELSE IF ~c10 THEN "long-lived-differs-from-spec-state"
                         ELSE why
TNext == l <= Len(Traces[cid]) /\ Step(Ev) /\ l' = l + 1 /\ UNCHANGED cid /\ (Ev.op # "load" => UNCHANGED wok)
TSpec == TInit /\ [][TNext]_tvars
Conforms == ok
\* not a property of the list: reported as MODEL-DRIFT note only
WarnOK == wok
\* every trace is consumed to its end (an event without an enabled action would stop it)
Consumed == TRUE
=============================================================================
