------------------------------ MODULE Neg_Http ------------------------------
(* Negative controls for the remote check: quotes stripped on the left only; *)
(* a fault that decides instead of raising is covered by FaultNeverDecides   *)
EXTENDS MC_Http
M_BodyLeftOnly(p_b) == LStrip(p_b) = TrueText
M_BodyLower(p_b) == RStrip(LStrip(p_b)) \in {TrueText, <<116, 114, 117, 101>>}
=============================================================================
