---------------------------- MODULE Conf_Sample ----------------------------
(* conformance of real sample files: lines classified by the harness,
   defaults in emission order, the mapping obtained by an independent YAML
   load of the document with its rule lines uncommented, and of the JSON
   sample *)
EXTENDS SampleDoc, Json, IOUtils
Cases == JsonDeserialize(IOEnv.VERIF_CASES)
VARIABLES cid, ph, ok
vars == <<cid, ph, ok>>
Pairs(ds) == {<<ds[i].name, ds[i].check>> : i \in 1..Len(ds)}
PairSet(ps) == {<<ps[i][1], ps[i][2]>> : i \in 1..Len(ps)}
Verdict(c) ==
  /\ c.crashed = 0
  /\ NoLiveLine(c.lines)
  /\ EveryDefaultOnce(c.lines, c.defaults)
  \* (the block grammar Accepts / RuleThenBlank of SampleDoc is a property of the
  \*  generator model only: real samples may hold extra blank lines, e.g. for a
  \*  whitespace-only description, which the statement does not forbid)
  \* the commented alias suggestion `# "old": "rule:new"` printed for a renamed policy is a rule line too once
  \* the leading "# " goes: it never names a policy that has a default of its own (it would replace it)
  /\ \A i \in 1..Len(c.aliases) : \A j \in 1..Len(c.defaults) : c.aliases[i] # c.defaults[j].name
  /\ c.yaml_whole_empty = 1                       \* as written the file overrides nothing
  /\ c.yaml_uncommented_ok = 1 /\ PairSet(c.uncommented) = Pairs(c.defaults) /\ Len(c.uncommented) = Len(c.defaults)
  /\ c.rules_load_ok = 1                          \* and it is a policy file the library loads
  /\ c.json_ok = 1 /\ PairSet(c.json_pairs) = Pairs(c.defaults) /\ Len(c.json_pairs) = Len(c.defaults)
Init == cid \in 1..Len(Cases) /\ ph = 0 /\ ok = TRUE
Next == ph = 0 /\ ph' = 1 /\ ok' = Verdict(Cases[cid]) /\ UNCHANGED cid
Spec == Init /\ [][Next]_vars
Conforms == ok
=============================================================================
