--------------------------- MODULE Conf_Validate ---------------------------
(***************************************************************************)
(* Conformance of real Enforcer.check_rules / oslopolicy-validator runs.   *)
(* case: rules (sequence of <<name, tree>>), ok (check_rules() returned    *)
(* True: 1/0), raised (check_rules(raise_on_violation=True) raised         *)
(* InvalidDefinitionError: 1/0), terminated (every rule evaluated without  *)
(* hitting the recursion watchdog: 1/0, only recorded when ok = 1),        *)
(* and for validator runs: missing, unknown, unparseable (what the harness *)
(* arranged) and rc (the tool's return code).                              *)
(***************************************************************************)
EXTENDS Validate, Json, IOUtils
Cases == JsonDeserialize(IOEnv.VERIF_CASES)
VARIABLES cid, ph, ok
vars == <<cid, ph, ok>>

Verdict(c) ==
  IF c.kind = "check" THEN
     /\ c.crashed = 0
     /\ (c.ok = 1) = CheckRulesDecl(c.rules)               \* reports exactly the undefined / cyclic graphs
     /\ (c.raised = 1) = ~CheckRulesDecl(c.rules)
     /\ CheckRulesOp(c.rules) = CheckRulesDecl(c.rules)    \* the transcribed walkers agree (design)
     /\ (c.ok = 1 => c.terminated = 1)                     \* nothing reported => evaluation terminates
  ELSE
     /\ c.crashed = 0
     /\ c.rc = ValidatorRc(c.rules, c.missing = 1, c.unknown = 1, c.unparseable = 1)

Init == cid \in 1..Len(Cases) /\ ph = 0 /\ ok = TRUE
Next == ph = 0 /\ ph' = 1 /\ ok' = Verdict(Cases[cid]) /\ UNCHANGED cid
Spec == Init /\ [][Next]_vars
Conforms == ok
=============================================================================
