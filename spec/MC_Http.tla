------------------------------ MODULE MC_Http ------------------------------
(***************************************************************************)
(* C16 at design level: every reply body up to MaxBody characters over an  *)
(* alphabet around the accepted form, every fault, the check placed in     *)
(* six nesting contexts.  The operational reply test (strip double quotes  *)
(* on both sides, compare with True) equals the sentence of C16; a fault   *)
(* never yields a decision; the request names the enforced policy.         *)
(***************************************************************************)
EXTENDS PolicyEval

CONSTANT MaxBody

VARIABLES body, fault, ctxt, haskey, ph, fails
inputs == <<body, fault, ctxt, haskey>>
vars == <<inputs, ph, fails>>

Alphabet == {34, 84, 114, 117, 101, 116, 32, 10}     \* " T r u e t space newline
Bodies == UNION {[1..n -> Alphabet] : n \in 0..MaxBody}
Dict(es) == [t |-> "d", s |-> <<0>>, e |-> es]
Scalar(s) == [t |-> "s", s |-> s, y |-> 1]
KeyK == <<107>>
Http == [k |-> "http", scheme |-> "http", parts |-> << [k |-> "lit", s |-> <<47, 47, 104, 47>>], [k |-> "ph", key |-> KeyK] >>]
Ref(n) == [k |-> "rule", name |-> n]
Tree == CASE ctxt = "bare" -> Http
          [] ctxt = "not" -> [k |-> "not", a |-> Http]
          [] ctxt = "and" -> [k |-> "and", as |-> <<[k |-> "T"], Http>>]
          [] ctxt = "or" -> [k |-> "or", as |-> <<[k |-> "F"], Http>>]
          [] ctxt = "shortcut" -> [k |-> "or", as |-> <<[k |-> "T"], Http>>]
          [] ctxt = "alias" -> Ref("remote")
Rules == << <<"p", Tree>>, <<"remote", Http>> >>
Target == IF haskey = 1 THEN Dict(<< <<KeyK, Scalar(<<120>>)>> >>) ELSE Dict(<<>>)
Env == [target |-> Target, creds |-> Dict(<<>>), rules |-> Rules, dflt |-> [t |-> "unset"], lowmap |-> <<>>,
        loose |-> FALSE, http |-> [fault |-> fault, body |-> body], cur |-> ""]
St == [rules |-> Rules, dflt |-> [t |-> "unset"], registered |-> <<>>, enforce_scope |-> 1, check_scopes |-> <<>>]
Call == [by |-> "name", name |-> "p", tree |-> [k |-> "F"], doraise |-> 0, custom |-> 0, authorize |-> 0, credskind |-> "map"]
Out == Enforce(Call, St, Env)

Init == body \in Bodies /\ fault \in {"none", "timeout", "connection"} /\ haskey \in {0, 1}
        /\ ctxt \in {"bare", "not", "and", "or", "shortcut", "alias"} /\ ph = 0 /\ fails = {}

\* the sentence: surrounding double quotes ignored, the rest exactly True
Quotes(n) == [i \in 1..n |-> DQ]
ExplicitTrue(b) == \E i \in 0..Len(b), j \in 0..Len(b) : b = Quotes(i) \o TrueText \o Quotes(j)

Reached == ctxt # "shortcut" /\ haskey = 1
ReplyRule == HttpBodyAllows(body) = ExplicitTrue(body)
OnlyTrueAllows ==
  (Reached /\ fault = "none") =>
     Out.o = "ret" /\ Out.v = (IF ctxt = "not" THEN ~ExplicitTrue(body) ELSE ExplicitTrue(body))
ShortcutSendsNothing == ctxt = "shortcut" => Out = Ret(TRUE, <<>>)
FaultNeverDecides == (Reached /\ fault # "none") => Out.o = "raise"
MissingKeyDenies == (haskey = 0 /\ ctxt # "shortcut") => (Out.o = "ret" /\ Out.v = (ctxt = "not") /\ Out.log = <<>>)
RequestNamesPolicy == \A i \in 1..Len(Out.log) : Out.log[i][1] = "http" => Out.log[i][4] = "p" /\ Out.log[i][3] = <<47, 47, 104, 47, 120>>
OneRequestAtMost == Len(Out.log) <= 1 /\ (Reached <=> Len(Out.log) = 1)

Holds == [n \in {"ReplyRule", "OnlyTrueAllows", "FaultNeverDecides", "MissingKeyDenies", "RequestNamesPolicy", "OneRequestAtMost", "ShortcutSendsNothing"} |->
            CASE n = "ReplyRule" -> ReplyRule
              [] n = "OnlyTrueAllows" -> OnlyTrueAllows
              [] n = "FaultNeverDecides" -> FaultNeverDecides
              [] n = "MissingKeyDenies" -> MissingKeyDenies
              [] n = "RequestNamesPolicy" -> RequestNamesPolicy
              [] n = "OneRequestAtMost" -> OneRequestAtMost
              [] n = "ShortcutSendsNothing" -> ShortcutSendsNothing]
Evaluate == ph = 0 /\ ph' = 1 /\ fails' = {n \in DOMAIN Holds : ~Holds[n]} /\ UNCHANGED inputs
Next == Evaluate
Spec == Init /\ [][Next]_vars
InvReplyRule == "ReplyRule" \notin fails
InvOnlyTrueAllows == "OnlyTrueAllows" \notin fails
InvFaultNeverDecides == "FaultNeverDecides" \notin fails
InvMissingKeyDenies == "MissingKeyDenies" \notin fails
InvRequestNamesPolicy == "RequestNamesPolicy" \notin fails
InvOneRequestAtMost == "OneRequestAtMost" \notin fails
InvShortcutSendsNothing == "ShortcutSendsNothing" \notin fails
=============================================================================
