----------------------------- MODULE MC_Alias -----------------------------
(***************************************************************************)
(* C06 at design level: rule graphs over {n1, n2, n3} whose bodies mix a   *)
(* role leaf, references (also undefined ones, under not/and/or) and two   *)
(* probe checks (a 4-argument one that is told the current rule and a      *)
(* 3-argument one that is not).  Checked: a reference decides as enforcing *)
(* the referenced name; inlining any one reference occurrence preserves    *)
(* every decision; every probe reached is told the enforced policy name.   *)
(***************************************************************************)
EXTENDS PolicyEval

CONSTANT Big

VARIABLES rules, dflt, query, creds, ph, fails
inputs == <<rules, dflt, query, creds>>
vars == <<inputs, ph, fails>>

R == <<114>>
KRoles == <<114, 111, 108, 101, 115>>
KF == <<102>>
Role == [k |-> "role", parts |-> << [k |-> "lit", s |-> R] >>]
Ref(n) == [k |-> "rule", name |-> n]
P4 == [k |-> "probe", id |-> 1, arity |-> 4, flag |-> <<1>>]
P3 == [k |-> "probe", id |-> 2, arity |-> 3, flag |-> <<2>>]
NotT(a) == [k |-> "not", a |-> a]
AndT(a, b) == [k |-> "and", as |-> <<a, b>>]
OrT(a, b) == [k |-> "or", as |-> <<a, b>>]
Undef == [k |-> "undef"]
Small == {Role, P4, Ref("n2"), Ref("n3"), Ref("zz"), NotT(Ref("n3")), AndT(P4, Ref("n2")), OrT(Ref("n3"), P3)}
Bodies == IF Big = 1
          THEN Small \cup {P3, Ref("n1"), NotT(P4), AndT(Ref("n2"), Ref("n3")), OrT(Role, NotT(Ref("zz"))), AndT(NotT(Ref("n2")), P4)}
          ELSE Small
Names == <<"n1", "n2", "n3">>
Dict(es) == [t |-> "d", s |-> <<0>>, e |-> es]
Scalar(s) == [t |-> "s", s |-> s, y |-> 1]
List(es) == [t |-> "l", s |-> <<0, 0>>, e |-> es]
NoHttp == [fault |-> "none", body |-> <<>>]

RuleSets == {SelectSeq([i \in 1..3 |-> <<Names[i], f[i]>>], LAMBDA p : p[2].k # "undef") : f \in [1..3 -> Bodies \cup {Undef}]}
Defaults == {[t |-> "unset"], [t |-> "name", v |-> "n3"], [t |-> "check", v |-> Role]}
CredsSet == {Dict(<< <<KRoles, List(rs)>>, <<KF, List(fs)>> >>) :
               rs \in {<<>>, <<Scalar(R)>>}, fs \in {<<>>, <<Scalar(<<1>>)>>, <<Scalar(<<2>>)>>, <<Scalar(<<1>>), Scalar(<<2>>)>>}}

EnvFor(rs) == [target |-> Dict(<<>>), creds |-> creds, rules |-> rs, dflt |-> dflt, lowmap |-> <<>>,
               loose |-> FALSE, http |-> NoHttp, cur |-> ""]
StFor(rs) == [rules |-> rs, dflt |-> dflt, registered |-> <<>>, enforce_scope |-> 1, check_scopes |-> <<>>]
CallN(n) == [by |-> "name", name |-> n, tree |-> [k |-> "F"], doraise |-> 0, custom |-> 0, authorize |-> 0, credskind |-> "map"]
CallC(t) == [by |-> "check", name |-> "", tree |-> t, doraise |-> 0, custom |-> 0, authorize |-> 0, credskind |-> "map"]
Q == {"n1", "n2", "n3", "zz"}

Terminates == \A n \in Q : LET l == Lookup(rules, dflt, n) IN l.found => Ev(l.tree, EnvFor(rules), Fuel).x # "diverge"

Init == rules \in RuleSets /\ dflt \in Defaults /\ query \in Q /\ creds \in CredsSet /\ ph = 0 /\ fails = {}

\* all positions (paths) of a tree
RECURSIVE Paths(_)
Paths(t) == IF t.k = "not" THEN {<<>>} \cup {<<1>> \o p : p \in Paths(t.a)}
            ELSE IF t.k \in {"and", "or"} THEN {<<>>} \cup UNION {{<<i>> \o p : p \in Paths(t.as[i])} : i \in 1..Len(t.as)}
            ELSE {<<>>}
\* the rule set with the occurrence at path p of rule number i inlined
InlinedSet(i, p) == [rules EXCEPT ![i] = <<rules[i][1], Inline(rules[i][2], p, rules, [t |-> "unset"])>>]

Out(rs, n) == Enforce(CallN(n), StFor(rs), EnvFor(rs))

AliasTransparent == Len(rules) > 0 => Ev(Ref(query), EnvFor(rules), Fuel).r = Out(rules, query).v
UndefinedRefLikeUnknown == (Len(rules) > 0 /\ ~Defined(rules, query)) =>
     Ev(Ref(query), EnvFor(rules), Fuel).r = C03Decision(StFor(rules), EnvFor(rules), query)
\* only references to DEFINED names are inlined (Inline is called with an
\* unset default so that a fallback is never pasted in)
InlinePreserves == \A i \in 1..Len(rules) : \A p \in Paths(rules[i][2]) :
     LET rs2 == InlinedSet(i, p) IN Out(rs2, query).v = Out(rules, query).v /\ Out(rs2, query).o = Out(rules, query).o
ProbeSeesEnforcedName ==
  /\ \A j \in 1..Len(Out(rules, query).log) :
        LET en == Out(rules, query).log[j] IN en[1] = "probe" => en[3] = (IF en[2] = 1 THEN query ELSE "<noarg>")
  /\ LET l == Lookup(rules, dflt, query) IN l.found =>
        \A j \in 1..Len(Enforce(CallC(l.tree), StFor(rules), EnvFor(rules)).log) :
           LET en == Enforce(CallC(l.tree), StFor(rules), EnvFor(rules)).log[j]
           IN en[1] = "probe" => en[3] = (IF en[2] = 1 THEN "" ELSE "<noarg>")
OpIsDen == LET l == Lookup(rules, dflt, query) IN l.found => Ev(l.tree, EnvFor(rules), Fuel).r = Den(l.tree, EnvFor(rules), Fuel)

Holds == [n \in {"AliasTransparent", "UndefinedRefLikeUnknown", "InlinePreserves", "ProbeSeesEnforcedName", "OpIsDen"} |->
            CASE n = "AliasTransparent" -> AliasTransparent
              [] n = "UndefinedRefLikeUnknown" -> UndefinedRefLikeUnknown
              [] n = "InlinePreserves" -> InlinePreserves
              [] n = "ProbeSeesEnforcedName" -> ProbeSeesEnforcedName
              [] n = "OpIsDen" -> OpIsDen]
Evaluate == /\ ph = 0 /\ ph' = 1
            /\ fails' = IF Terminates THEN {n \in DOMAIN Holds : ~Holds[n]} ELSE {"nonterminating"}
            /\ UNCHANGED inputs
Next == Evaluate
Spec == Init /\ [][Next]_vars
InvAliasTransparent == "AliasTransparent" \notin fails
InvUndefinedRefLikeUnknown == "UndefinedRefLikeUnknown" \notin fails
InvInlinePreserves == "InlinePreserves" \notin fails
InvProbeSeesEnforcedName == "ProbeSeesEnforcedName" \notin fails
InvOpIsDen == "OpIsDen" \notin fails
=============================================================================
