----------------------------- MODULE SampleDoc -----------------------------
(***************************************************************************)
(* The sample policy file written by oslopolicy-sample-generator           *)
(* (generator._generate_sample / _format_rule_default_yaml /               *)
(* _format_help_text) as a sequence of classified lines:                   *)
(*    "blank"    empty line                                                *)
(*    "hash"     a bare "#"                                                *)
(*    "comment"  "#" followed by anything that is not a rule line          *)
(*    "rule"     #"<name>": "<check>"   - a commented-out rule             *)
(*    "live"     anything that does not start with "#": it would be read   *)
(*               by a YAML parser                                          *)
(* A registered default is [name, check, kind, desc, nops, scope] with     *)
(* kind in {"plain", "removal", "renamed", "changed"} and desc the         *)
(* abstract shape of its description: a sequence over                      *)
(*    "p" (a line of running text) "b" (blank line) "i" (indented line).   *)
(***************************************************************************)
EXTENDS Naturals, Sequences, FiniteSets, TLC

Line(c) == [c |-> c, name |-> <<>>, check |-> <<>>]
RuleLine(d) == [c |-> "rule", name |-> d.name, check |-> d.check]

(***************************************************************************)
(* _format_help_text: a three-state machine (paragraph buffer / literal    *)
(* block / blank).  A flushed paragraph becomes one or more comment lines  *)
(* (one here: wrapping is below this abstraction).                         *)
(***************************************************************************)
RECURSIVE Help(_, _, _)
Help(desc, i, buf) ==      \* buf: paragraph lines pending
  IF i > Len(desc) THEN (IF buf > 0 THEN <<Line("comment")>> ELSE <<>>)
  ELSE CASE desc[i] = "b" -> (IF buf > 0 THEN <<Line("comment")>> ELSE <<>>) \o <<Line("hash")>> \o Help(desc, i + 1, 0)
         [] desc[i] = "p" -> Help(desc, i + 1, buf + 1)
         [] desc[i] = "i" -> (IF buf > 0 THEN <<Line("comment"), Line("hash")>> ELSE <<>>) \o <<Line("comment")>> \o Help(desc, i + 1, 0)
FormatHelp(desc) == IF Len(desc) = 0 THEN <<Line("hash")>> ELSE Help(desc, 1, 0)

Rep(c, n) == [i \in 1..n |-> Line(c)]

\* _format_rule_default_yaml with include_help, comment_rule
Block(d, excl) ==
  LET core == (IF Len(d.desc) > 0 THEN FormatHelp(d.desc) ELSE <<>>)
              \o Rep("comment", d.nops) \o (IF d.scope = 1 THEN <<Line("comment")>> ELSE <<>>)
              \o <<RuleLine(d), Line("blank")>>
  IN IF excl THEN core
     ELSE IF d.kind = "removal" THEN <<Line("comment"), Line("comment")>> \o FormatHelp(d.reason) \o core
     ELSE IF d.kind \in {"renamed", "changed"}
          THEN core \o <<Line("comment")>> \o <<Line("comment")>> \o FormatHelp(d.reason)
               \o (IF d.kind = "renamed" THEN Rep("comment", 10) ELSE <<>>) \o <<Line("blank")>>
     ELSE core

RECURSIVE Emit(_, _, _)
Emit(defaults, i, excl) == IF i > Len(defaults) THEN <<>> ELSE Block(defaults[i], excl) \o Emit(defaults, i + 1, excl)
Sample(defaults, excl) == Emit(defaults, 1, excl)

(***************************************************************************)
(* C17 on a document                                                       *)
(***************************************************************************)
NoLiveLine(doc) == \A i \in 1..Len(doc) : doc[i].c \in {"blank", "hash", "comment", "rule"}
RuleLines(doc) == SelectSeq(doc, LAMBDA l : l.c = "rule")
\* uncommenting the rule lines gives exactly name -> default check string, each once
EveryDefaultOnce(doc, defaults) ==
  LET rl == RuleLines(doc) IN
  /\ Len(rl) = Len(defaults)
  /\ \A i \in 1..Len(rl) : rl[i].name = defaults[i].name /\ rl[i].check = defaults[i].check
\* a rule line is followed by a blank line (so that nothing can attach to it)
RuleThenBlank(doc) == \A i \in 1..Len(doc) : doc[i].c = "rule" => (i < Len(doc) /\ doc[i + 1].c = "blank")

(***************************************************************************)
(* Acceptor of real documents (wrapping may produce any number >= 1 of     *)
(* comment lines per paragraph): per default   C* R B (C+ B)?              *)
(***************************************************************************)
IsC(l) == l.c \in {"comment", "hash"}
RECURSIVE SkipC(_, _)
SkipC(doc, p) == IF p <= Len(doc) /\ IsC(doc[p]) THEN SkipC(doc, p + 1) ELSE p
RECURSIVE Accept(_, _, _, _)
Accept(doc, p, defaults, i) ==
  IF i > Len(defaults) THEN p = Len(doc) + 1
  ELSE LET q == SkipC(doc, p) IN
       /\ q + 1 <= Len(doc)
       /\ doc[q].c = "rule" /\ doc[q].name = defaults[i].name /\ doc[q].check = defaults[i].check
       /\ doc[q + 1].c = "blank"
       /\ LET r == SkipC(doc, q + 2) IN
          \/ Accept(doc, q + 2, defaults, i + 1)                               \* no trailing deprecation block
          \/ (r > q + 2 /\ r <= Len(doc) /\ doc[r].c = "blank" /\ Accept(doc, r + 1, defaults, i + 1))
Accepts(doc, defaults) == Accept(doc, 1, defaults, 1)
=============================================================================
