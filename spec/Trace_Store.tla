----------------------------- MODULE Trace_Store -----------------------------
(***************************************************************************)
(* The rule store of one long-lived Enforcer as a state machine, and the   *)
(* validation of recorded sessions against it.                             *)
(*   SetRules(rs, overwrite)   Enforcer.set_rules: replace, or dict.update *)
(*   Clear                     Enforcer.clear: no rules, no default rule   *)
(*   Enforce(...)              does not change the store; its outcome is   *)
(*                             PolicyEval!Enforce on the store as it is    *)
(* A session is a sequence of events [op |-> "set_rules", rules,           *)
(* overwrite] / [op |-> "clear"] / an "enforce" event with the fields of a *)
(* Conf_Eval case.  Every enforce must have the outcome the specification  *)
(* computes from the store state reached by the events before it - a       *)
(* memo, cache or flag in the code that survives a store change shows up   *)
(* as a mismatch at the first enforce after it.                            *)
(***************************************************************************)
EXTENDS PolicyEval, Json, IOUtils

Traces == JsonDeserialize(IOEnv.VERIF_CASES)

VARIABLES cid, l, ok, rules, dflt
vars == <<cid, l, ok, rules, dflt>>

\* dict.update: existing keys keep their place and take the new value, new keys are appended
RECURSIVE MergeInto(_, _, _)
MergeInto(rs, new, i) ==
  IF i > Len(new) THEN rs
  ELSE LET n == new[i][1] IN
       IF Defined(rs, n)
       THEN MergeInto([j \in 1..Len(rs) |-> IF rs[j][1] = n THEN new[i] ELSE rs[j]], new, i + 1)
       ELSE MergeInto(Append(rs, new[i]), new, i + 1)

Init == /\ cid \in 1..Len(Traces) /\ l = 1 /\ ok = TRUE
        /\ rules = Traces[cid].init.rules /\ dflt = Traces[cid].init.dflt

Ev1 == Traces[cid].events[l]
EnvAt(c) == [target |-> c.target, creds |-> c.creds, rules |-> rules, dflt |-> dflt,
             lowmap |-> c.lowmap, loose |-> FALSE, http |-> c.http, cur |-> ""]
StAt(c) == [rules |-> rules, dflt |-> dflt, registered |-> c.st.registered, enforce_scope |-> c.st.enforce_scope,
            check_scopes |-> c.st.check_scopes]
Match(c, exp) ==
  /\ c.obs.o = exp.o /\ c.obs.cls = exp.cls
  /\ (exp.o = "ret" => (c.obs.v = 1) = exp.v)
  /\ (c.checklog = 1 => c.obs.log = exp.log)

SetRules(e) == /\ rules' = IF e.overwrite = 1 THEN e.rules ELSE MergeInto(rules, e.rules, 1)
               /\ UNCHANGED <<dflt, ok>>
Clear == rules' = <<>> /\ dflt' = [t |-> "unset"] /\ UNCHANGED ok
EnforceEv(e) == /\ ok' = (ok /\ Match(e, Enforce(e.call, StAt(e), EnvAt(e))))
                /\ UNCHANGED <<rules, dflt>>
Next == /\ l <= Len(Traces[cid].events)
        /\ CASE Ev1.op = "set_rules" -> SetRules(Ev1)
             [] Ev1.op = "clear" -> Clear
             [] Ev1.op = "enforce" -> EnforceEv(Ev1)
        /\ l' = l + 1 /\ UNCHANGED cid
Spec == Init /\ [][Next]_vars
Conforms == ok
=============================================================================
