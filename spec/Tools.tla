------------------------------- MODULE Tools -------------------------------
(***************************************************************************)
(* The policy-rewriting tools of oslo_policy/generator.py as maps on       *)
(* abstract policy files (name -> body, bodies as in Loader), composed     *)
(* with the loader's declarative layering:                                 *)
(*   Convert   oslopolicy-convert-json-to-yaml                             *)
(*   Upgrade   oslopolicy-policy-upgrade                                   *)
(*   Generate  oslopolicy-policy-generator (merged effective policy)       *)
(*   Redundant oslopolicy-list-redundant                                   *)
(* C18: under the policy a tool writes, every surviving policy decides as  *)
(* under the policy it was given (default configuration).                  *)
(***************************************************************************)
EXTENDS Loader

IsReg(n) == \E i \in 1..Len(Defaults) : Defaults[i].name = n
Dflt(n) == Defaults[CHOOSE i \in 1..Len(Defaults) : Defaults[i].name = n]

\* convert: a rule equal to its registered default is commented out,
\* everything else (overrides, deprecated and unknown names) is kept
Convert(c) == [n \in Names |-> IF IsReg(n) /\ c[n] = Dflt(n).body THEN None ELSE c[n]]

\* upgrade: the operator's value under a deprecated name moves to every
\* successor; the deprecated name disappears; a value that merely aliases the
\* successor (rule:<new>) is dropped, not moved
RECURSIVE UpgradeFrom(_, _, _, _)
UpgradeFrom(c, old, i, moveAlias) ==
  IF i > Len(Defaults) THEN c
  ELSE LET d == Defaults[i] IN
       IF d.dep.name # "" /\ d.dep.name \in Names /\ old[d.dep.name].k # "none"
       THEN LET dropped == [c EXCEPT ![d.dep.name] = None] IN
            IF ~moveAlias /\ d.dep.name # d.name /\ old[d.dep.name] = Alias(d.name)
            THEN UpgradeFrom(dropped, old, i + 1, moveAlias)
            ELSE UpgradeFrom([dropped EXCEPT ![d.name] = old[d.dep.name]], old, i + 1, moveAlias)
       ELSE UpgradeFrom(c, old, i + 1, moveAlias)
Upgrade(c) == UpgradeFrom(c, c, 1, FALSE)
\* the tool as it was shipped (alias moved like any value): kept as a negative
\* control - TLC finds "o": "rule:n" |-> "n": "rule:n" (a self-reference)
UpgradeAsShipped(c) == UpgradeFrom(c, c, 1, TRUE)

\* policy-generator: every rule found in the files, plus the registered
\* default of every name found in no file
Generate(fs, dirs) == [n \in Names |-> IF FileDef(n, fs, dirs).k # "none" THEN FileDef(n, fs, dirs)
                                      ELSE IF IsReg(n) THEN Dflt(n).body ELSE None]

\* list-redundant: file rules equal to their registered default
Redundant(fs, dirs) == {n \in Names : IsReg(n) /\ FileDef(n, fs, dirs) = Dflt(n).body}
Without(c, ns) == [n \in Names |-> IF n \in ns THEN None ELSE c[n]]

\* a file system holding just a main file with content c
OnlyMain(c, proto) == [f \in DOMAIN proto |-> IF f = MainFile THEN [exists |-> TRUE, mtime |-> 1, content |-> c]
                                              ELSE [exists |-> FALSE, mtime |-> 0, content |-> NoRules]]
DeprecatedNames == {Defaults[i].dep.name : i \in 1..Len(Defaults)} \ {""}
\* names that no longer exist after an upgrade (renamed away)
Vanished == {n \in DeprecatedNames : ~IsReg(n)}
=============================================================================
