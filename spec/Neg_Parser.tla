----------------------------- MODULE Neg_Parser -----------------------------
(* Negative control for the shift-reduce machine: without the reduction that *)
(* lets `and` bind tighter than a preceding `or` the machine is unsound      *)
EXTENDS MC_Parser
M_NeverMix(st) == FALSE
=============================================================================
