----------------------------- MODULE PolicyEval -----------------------------
(***************************************************************************)
(* Evaluation of check trees against a target and credentials, the rule    *)
(* store with its default-rule fallback, and the Enforcer.enforce /        *)
(* authorize surface (oslo_policy/_checks.py, _external.py, policy.py).    *)
(*                                                                         *)
(* Text is a sequence of code points.  A JSON-like value is a record       *)
(*    [t |-> "d", s |-> Text, e |-> << <<key, value>>, ... >>]   mapping   *)
(*    [t |-> "l", s |-> Text, e |-> << value, ... >>]            list      *)
(*    [t |-> "s", s |-> Text, y |-> 0/1]                         scalar    *)
(*    [t |-> "o", s |-> Text]                                    opaque    *)
(* where s is the value's string form (Python str()) and y its truthiness. *)
(*                                                                         *)
(* A check tree is a record with field k:                                  *)
(*   "T" "F"                       always allow / deny                     *)
(*   "not" (a)  "and" (as)  "or" (as)                                      *)
(*   "role"    parts               role:X with X a template                *)
(*   "generic" lit, ls, path, parts   lhs literal (string form ls) or a    *)
(*                                 dotted path (segments), rhs a template  *)
(*   "rule"    name                reference                               *)
(*   "probe"   id, arity, flag     a custom check class; 4-argument ones   *)
(*                                 receive the current rule name           *)
(*   "http"    scheme, parts       remote check, url template              *)
(* A template is a sequence of parts [k |-> "lit", s] / [k |-> "ph", key]. *)
(***************************************************************************)
EXTENDS Naturals, Sequences, FiniteSets, TLC

Range(f) == {f[i] : i \in DOMAIN f}

(***************************************************************************)
(* Text helpers.  lowmap: sequence of <<code point, lower-case code        *)
(* point>> pairs supplied by the harness from Python's str.lower.          *)
(***************************************************************************)
LowOf(c, lowmap) == IF \E i \in 1..Len(lowmap) : lowmap[i][1] = c
                    THEN lowmap[CHOOSE i \in 1..Len(lowmap) : lowmap[i][1] = c][2]
                    ELSE c
LowerText(t, lowmap) == [i \in 1..Len(t) |-> LowOf(t[i], lowmap)]

RECURSIVE Concat(_)
Concat(ss) == IF Len(ss) = 0 THEN <<>> ELSE Head(ss) \o Concat(Tail(ss))

(***************************************************************************)
(* Values                                                                  *)
(***************************************************************************)
HasKey(d, key) == d.t = "d" /\ \E i \in 1..Len(d.e) : d.e[i][1] = key
Get(d, key) == d.e[CHOOSE i \in 1..Len(d.e) : d.e[i][1] = key][2]
Truthy(v) == CASE v.t = "s" -> v.y = 1
               [] v.t = "o" -> TRUE
               [] OTHER -> Len(v.e) > 0

(***************************************************************************)
(* %(key)s substitution (self.match % target): a missing key fails.        *)
(***************************************************************************)
SubstOK(parts, target) == \A i \in 1..Len(parts) : parts[i].k = "ph" => HasKey(target, parts[i].key)
Subst(parts, target) ==
  Concat([i \in 1..Len(parts) |-> IF parts[i].k = "lit" THEN parts[i].s ELSE Get(target, parts[i].key).s])

(***************************************************************************)
(* C04  RoleCheck.__call__: substitute, then compare case-folded with      *)
(* every role name of the credentials.  Operational form (as the code) and *)
(* declarative form (the sentence of C04).                                 *)
(***************************************************************************)
RoleNames(creds) == IF HasKey(creds, <<114, 111, 108, 101, 115>>)       \* "roles"
                    THEN LET r == Get(creds, <<114, 111, 108, 101, 115>>)
                         IN IF r.t = "l" THEN {r.e[i].s : i \in 1..Len(r.e)} ELSE {}
                    ELSE {}
RoleAllowsOp(leaf, target, creds, lowmap) ==
  IF ~SubstOK(leaf.parts, target) THEN FALSE
  ELSE LET m == LowerText(Subst(leaf.parts, target), lowmap)
       IN IF ~HasKey(creds, <<114, 111, 108, 101, 115>>) THEN FALSE
          ELSE m \in {LowerText(r, lowmap) : r \in RoleNames(creds)}
RoleAllowsDecl(leaf, target, creds, lowmap) ==
  /\ SubstOK(leaf.parts, target)
  /\ \E r \in RoleNames(creds) : LowerText(r, lowmap) = LowerText(Subst(leaf.parts, target), lowmap)

(***************************************************************************)
(* C05  GenericCheck: literal first, otherwise walk the dotted path        *)
(* through the credentials; a list fans out with any-match; the comparison *)
(* is with the string form of what the path reaches.  "loose" decides the  *)
(* corner the statement leaves open: an element of a list that is itself a *)
(* list while path segments remain (strict: no match; loose: fan out).     *)
(***************************************************************************)
RECURSIVE Find(_, _, _, _), FindElem(_, _, _, _)
Find(node, segs, m, loose) ==
  IF Len(segs) = 0 THEN m = node.s
  ELSE IF node.t = "d" THEN
         IF ~HasKey(node, Head(segs)) THEN FALSE
         ELSE LET v == Get(node, Head(segs))
              IN IF v.t = "l" THEN \E i \in 1..Len(v.e) : FindElem(v.e[i], Tail(segs), m, loose)
                 ELSE Find(v, Tail(segs), m, loose)
       ELSE FALSE              \* the path runs into something that is not a mapping
FindElem(el, segs, m, loose) ==
  IF el.t = "l" /\ Len(segs) > 0 /\ loose
  THEN \E i \in 1..Len(el.e) : FindElem(el.e[i], segs, m, loose)
  ELSE Find(el, segs, m, loose)

GenericAllows(leaf, target, creds, loose) ==
  IF ~SubstOK(leaf.parts, target) THEN FALSE
  ELSE LET m == Subst(leaf.parts, target)
       IN IF leaf.lit = 1 THEN m = leaf.ls ELSE Find(creds, leaf.path, m, loose)

\* the sentence of C05, written from the statement: the set of values the
\* path reaches, any of whose string forms equals the right side
RECURSIVE Reach(_, _, _), ReachElem(_, _, _)
Reach(node, segs, loose) ==
  IF Len(segs) = 0 THEN {node.s}
  ELSE IF node.t = "d" /\ HasKey(node, Head(segs)) THEN
         LET v == Get(node, Head(segs))
         IN IF v.t = "l" THEN UNION {ReachElem(v.e[i], Tail(segs), loose) : i \in 1..Len(v.e)}
            ELSE Reach(v, Tail(segs), loose)
       ELSE {}
ReachElem(el, segs, loose) ==
  IF el.t = "l" /\ Len(segs) > 0 /\ loose
  THEN UNION {ReachElem(el.e[i], segs, loose) : i \in 1..Len(el.e)}
  ELSE Reach(el, segs, loose)
GenericAllowsDecl(leaf, target, creds, loose) ==
  /\ SubstOK(leaf.parts, target)
  /\ LET m == Subst(leaf.parts, target)
     IN IF leaf.lit = 1 THEN m = leaf.ls ELSE m \in Reach(creds, leaf.path, loose)

(***************************************************************************)
(* C16  the remote check: allow iff the reply body, stripped of            *)
(* surrounding double quotes, is exactly "True"; a fault raises.           *)
(***************************************************************************)
DQ == 34
RECURSIVE LStrip(_), RStrip(_)
LStrip(t) == IF Len(t) > 0 /\ t[1] = DQ THEN LStrip(Tail(t)) ELSE t
RStrip(t) == IF Len(t) > 0 /\ t[Len(t)] = DQ THEN RStrip(SubSeq(t, 1, Len(t) - 1)) ELSE t
TrueText == <<84, 114, 117, 101>>
HttpBodyAllows(body) == RStrip(LStrip(body)) = TrueText

(***************************************************************************)
(* The rule store (policy.Rules): name -> tree, with the default rule.     *)
(* rules: sequence of <<name, tree>>; dflt: [t |-> "unset"] /              *)
(* [t |-> "name", v |-> name] / [t |-> "check", v |-> tree]                *)
(***************************************************************************)
Defined(rules, n) == \E i \in 1..Len(rules) : rules[i][1] = n
Body(rules, n) == rules[CHOOSE i \in 1..Len(rules) : rules[i][1] = n][2]

\* Rules.__getitem__ with __missing__: [found, tree]
Lookup(rules, dflt, n) ==
  IF Defined(rules, n) THEN [found |-> TRUE, tree |-> Body(rules, n)]
  ELSE IF dflt.t = "check" THEN [found |-> TRUE, tree |-> dflt.v]
  ELSE IF dflt.t = "name" /\ dflt.v # "" /\ Defined(rules, dflt.v) THEN [found |-> TRUE, tree |-> Body(rules, dflt.v)]
  ELSE [found |-> FALSE, tree |-> [k |-> "F"]]

(***************************************************************************)
(* Evaluation with effects (CheckEval).  The environment:                  *)
(*   target, creds, rules, dflt, lowmap, loose, http (reply of the stub:   *)
(*   [fault, body]), cur (name of the policy being enforced, "" = None).   *)
(* The result: [r |-> allow?, x |-> exception class or "" , log |-> what   *)
(* probe checks and the http stub were told, in call order].  And/Or       *)
(* short-circuit left to right; an exception aborts everything.  fuel      *)
(* bounds the depth of rule: references ("diverge" when exhausted).        *)
(***************************************************************************)
Res(r, x, log) == [r |-> r, x |-> x, log |-> log]

RECURSIVE Ev(_, _, _), EvAnd(_, _, _, _, _), EvOr(_, _, _, _, _)
Ev(t, env, fuel) ==
  CASE t.k = "T" -> Res(TRUE, "", <<>>)
    [] t.k = "F" -> Res(FALSE, "", <<>>)
    [] t.k = "not" -> LET a == Ev(t.a, env, fuel) IN Res(~a.r, a.x, a.log)
    [] t.k = "and" -> EvAnd(t.as, 1, env, fuel, <<>>)
    [] t.k = "or" -> EvOr(t.as, 1, env, fuel, <<>>)
    [] t.k = "role" -> Res(RoleAllowsOp(t, env.target, env.creds, env.lowmap), "", <<>>)
    [] t.k = "generic" -> Res(GenericAllows(t, env.target, env.creds, env.loose), "", <<>>)
    [] t.k = "probe" ->
         \* a custom check: allows iff its flag is among creds.flags; logs
         \* the current rule it was given ("<noarg>" for 3-argument classes)
         Res(HasKey(env.creds, <<102>>) /\ t.flag \in {Get(env.creds, <<102>>).e[i].s : i \in 1..Len(Get(env.creds, <<102>>).e)},
             "", << <<"probe", t.id, IF t.arity = 4 THEN env.cur ELSE "<noarg>">> >>)
    [] t.k = "rule" ->
         IF fuel = 0 THEN Res(FALSE, "diverge", <<>>)
         ELSE LET l == Lookup(env.rules, env.dflt, t.name)
              IN IF l.found THEN Ev(l.tree, env, fuel - 1) ELSE Res(FALSE, "", <<>>)
    [] t.k = "http" ->
         IF ~SubstOK(t.parts, env.target) THEN Res(FALSE, "", <<>>)     \* missing key: deny, nothing is sent
         ELSE LET url == Subst(t.parts, env.target)
                  req == << <<"http", t.scheme, url, env.cur>> >>
              IN IF env.http.fault # "none" THEN Res(FALSE, "fault", req)
                 ELSE Res(HttpBodyAllows(env.http.body), "", req)
EvAnd(as, i, env, fuel, log) ==
  IF i > Len(as) THEN Res(TRUE, "", log)
  ELSE LET a == Ev(as[i], env, fuel)
       IN IF a.x # "" THEN Res(FALSE, a.x, log \o a.log)
          ELSE IF ~a.r THEN Res(FALSE, "", log \o a.log)
          ELSE EvAnd(as, i + 1, env, fuel, log \o a.log)
EvOr(as, i, env, fuel, log) ==
  IF i > Len(as) THEN Res(FALSE, "", log)
  ELSE LET a == Ev(as[i], env, fuel)
       IN IF a.x # "" THEN Res(FALSE, a.x, log \o a.log)
          ELSE IF a.r THEN Res(TRUE, "", log \o a.log)
          ELSE EvOr(as, i + 1, env, fuel, log \o a.log)

\* Pure Boolean denotation (no effects, no order): what the decision must be
RECURSIVE Den(_, _, _)
Den(t, env, fuel) ==
  CASE t.k = "T" -> TRUE
    [] t.k = "F" -> FALSE
    [] t.k = "not" -> ~Den(t.a, env, fuel)
    [] t.k = "and" -> \A i \in 1..Len(t.as) : Den(t.as[i], env, fuel)
    [] t.k = "or" -> \E i \in 1..Len(t.as) : Den(t.as[i], env, fuel)
    [] t.k = "role" -> RoleAllowsDecl(t, env.target, env.creds, env.lowmap)
    [] t.k = "generic" -> GenericAllowsDecl(t, env.target, env.creds, env.loose)
    [] t.k = "probe" -> HasKey(env.creds, <<102>>) /\ t.flag \in {Get(env.creds, <<102>>).e[i].s : i \in 1..Len(Get(env.creds, <<102>>).e)}
    [] t.k = "rule" -> IF fuel = 0 THEN FALSE
                       ELSE LET l == Lookup(env.rules, env.dflt, t.name)
                            IN l.found /\ Den(l.tree, env, fuel - 1)
    [] t.k = "http" -> SubstOK(t.parts, env.target) /\ env.http.fault = "none" /\ HttpBodyAllows(env.http.body)

Fuel == 12

(***************************************************************************)
(* C08  the scope gate (_enforce_scope)                                    *)
(***************************************************************************)
KSystem == <<115, 121, 115, 116, 101, 109>>                         \* "system"
KSystemScope == <<115, 121, 115, 116, 101, 109, 95, 115, 99, 111, 112, 101>>   \* "system_scope"
KDomainId == <<100, 111, 109, 97, 105, 110, 95, 105, 100>>          \* "domain_id"

\* enforce mirrors a truthy system_scope into system before anything else
HasSystem(creds) == \/ (HasKey(creds, KSystemScope) /\ Truthy(Get(creds, KSystemScope)))
                    \/ (HasKey(creds, KSystem) /\ Truthy(Get(creds, KSystem)))
TokenScope(creds) == IF HasSystem(creds) THEN "system"
                     ELSE IF HasKey(creds, KDomainId) /\ Truthy(Get(creds, KDomainId)) THEN "domain"
                     ELSE "project"
\* scope_types: sequence of strings, <<>> = none declared
ScopeMismatch(scopes, creds) == Len(scopes) > 0 /\ TokenScope(creds) \notin Range(scopes)

(***************************************************************************)
(* C03 C06 C07 C08 C14  Enforcer.enforce / authorize.                      *)
(* call: [by |-> "name"/"check", name, tree, doraise, custom (0/1),        *)
(*        authorize (0/1), credskind ("map"/"bad")]                        *)
(* st:   [rules, dflt, registered (sequence of <<name, scopes>>),          *)
(*        enforce_scope (0/1), check_scopes (scope types set on a check    *)
(*        object)]                                                         *)
(* Outcome: [o |-> "ret", v |-> BOOLEAN] or [o |-> "raise", cls |-> ...]   *)
(* plus the effect log.                                                    *)
(***************************************************************************)
Ret(v, log) == [o |-> "ret", v |-> v, cls |-> "", log |-> log]
Raise(cls, log) == [o |-> "raise", v |-> FALSE, cls |-> cls, log |-> log]

IsRegistered(st, n) == \E i \in 1..Len(st.registered) : st.registered[i][1] = n
RegScopes(st, n) == st.registered[CHOOSE i \in 1..Len(st.registered) : st.registered[i][1] = n][2]

Deny(call, log) == IF call.doraise = 1
                   THEN Raise(IF call.custom = 1 THEN "Custom" ELSE "PolicyNotAuthorized", log)
                   ELSE Ret(FALSE, log)

Finish(call, e) ==
  IF e.x = "diverge" THEN Raise("RecursionError", e.log)
  ELSE IF e.x # "" THEN Raise("CheckRaised", e.log)      \* only http faults, outside C14's domain
  ELSE IF e.r THEN Ret(TRUE, e.log) ELSE Deny(call, e.log)

ScopeGate(call, st, scopes, envv) ==
  \* TRUE: blocked.  (enforce_scope off: only a warning)
  ScopeMismatch(scopes, envv.creds) /\ st.enforce_scope = 1

Enforce(call, st, envv) ==
  IF call.authorize = 1 /\ ~IsRegistered(st, call.name) THEN Raise("PolicyNotRegistered", <<>>)
  ELSE IF call.credskind = "bad" THEN Raise("InvalidContextObject", <<>>)
  ELSE IF call.by = "check" THEN
         IF ScopeGate(call, st, st.check_scopes, envv)
         THEN (IF call.doraise = 1 THEN Raise("InvalidScope", <<>>) ELSE Ret(FALSE, <<>>))
         ELSE Finish(call, Ev(call.tree, [envv EXCEPT !.cur = ""], Fuel))
  ELSE IF Len(st.rules) = 0 THEN Deny(call, <<>>)
  ELSE LET l == Lookup(st.rules, st.dflt, call.name)
       IN IF ~l.found THEN Deny(call, <<>>)
          ELSE IF IsRegistered(st, call.name) /\ ScopeGate(call, st, RegScopes(st, call.name), envv)
               THEN (IF call.doraise = 1 THEN Raise("InvalidScope", <<>>) ELSE Ret(FALSE, <<>>))
               ELSE Finish(call, Ev(l.tree, [envv EXCEPT !.cur = call.name], Fuel))

(***************************************************************************)
(* Declarative statements used as oracles                                  *)
(***************************************************************************)
\* C03: an undefined name allows only through a usable default that allows;
\* a defined name is decided by its own definition
C03Decision(st, envv, n) ==
  IF Defined(st.rules, n) THEN Den(Body(st.rules, n), envv, Fuel)
  ELSE IF Len(st.rules) = 0 THEN FALSE
  ELSE IF st.dflt.t = "check" THEN Den(st.dflt.v, envv, Fuel)
  ELSE IF st.dflt.t = "name" /\ st.dflt.v # "" /\ Defined(st.rules, st.dflt.v) THEN Den(Body(st.rules, st.dflt.v), envv, Fuel)
  ELSE FALSE

\* C06: inline the reference at path p (sequence of child indices) of a tree
RECURSIVE Inline(_, _, _, _)
Inline(t, p, rules, dflt) ==
  IF Len(p) = 0 THEN (IF t.k = "rule" /\ Lookup(rules, dflt, t.name).found THEN Lookup(rules, dflt, t.name).tree ELSE t)
  ELSE IF t.k = "not" THEN [t EXCEPT !.a = Inline(t.a, Tail(p), rules, dflt)]
  ELSE IF t.k \in {"and", "or"} THEN [t EXCEPT !.as[Head(p)] = Inline(t.as[Head(p)], Tail(p), rules, dflt)]
  ELSE t
=============================================================================
