------------------------------ MODULE MC_Pick ------------------------------
(* the complete file-selection table: operational = declarative *)
EXTENDS PickFile
VARIABLES arg, loc, val, hasYaml, hasJson, fallback
vars == <<arg, loc, val, hasYaml, hasJson, fallback>>
Init == /\ arg \in {"", "explicit.yaml", "policy.json"}
        /\ loc \in {"opt_default", "set_default", "user", "set_override"}
        /\ val \in {"policy.yaml", "other.yaml", "policy.json"}
        /\ (loc = "opt_default" => val = "policy.yaml")
        /\ hasYaml \in BOOLEAN /\ hasJson \in BOOLEAN /\ fallback \in BOOLEAN
Next == UNCHANGED vars
Spec == Init /\ [][Next]_vars
OpIsDecl == PickOp(arg, loc, val, hasYaml, hasJson, fallback) = PickDecl(arg, loc, val, hasYaml, hasJson, fallback)
=============================================================================
