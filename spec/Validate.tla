------------------------------ MODULE Validate ------------------------------
(***************************************************************************)
(* Rule-set validation (Enforcer.check_rules, _undefined_check,            *)
(* _cycle_check, generator._validate_policy).                              *)
(*  - the two walkers transcribed from the code (the cycle walker carries  *)
(*    a visited set along each path and hands every and/or branch its own  *)
(*    copy)                                                                *)
(*  - an independent graph analysis (reference sets, transitive closure)   *)
(*    used as oracle                                                       *)
(* Rule sets and trees are those of PolicyEval.                            *)
(***************************************************************************)
EXTENDS PolicyEval

NameSet(rules) == {rules[i][1] : i \in 1..Len(rules)}

\* ---- the code's walkers
RECURSIVE UndefWalk(_, _)
UndefWalk(t, rules) ==
  CASE t.k = "rule" -> ~Defined(rules, t.name)
    [] t.k = "not" -> UndefWalk(t.a, rules)
    [] t.k \in {"and", "or"} -> \E i \in 1..Len(t.as) : UndefWalk(t.as[i], rules)
    [] OTHER -> FALSE

RECURSIVE CycleWalk(_, _, _)
CycleWalk(t, seen, rules) ==
  CASE t.k = "rule" -> IF t.name \in seen THEN TRUE
                       ELSE IF Defined(rules, t.name) THEN CycleWalk(Body(rules, t.name), seen \cup {t.name}, rules)
                       ELSE FALSE
    [] t.k = "not" -> CycleWalk(t.a, seen, rules)
    [] t.k \in {"and", "or"} -> \E i \in 1..Len(t.as) : CycleWalk(t.as[i], seen, rules)     \* each branch its own copy
    [] OTHER -> FALSE

\* the walkers as they were shipped (they looked only at the .rules list of and/or
\* nodes, so the operand of a NotCheck was never visited) - negative control
RECURSIVE UndefWalkShipped(_, _)
UndefWalkShipped(t, rules) ==
  CASE t.k = "rule" -> ~Defined(rules, t.name)
    [] t.k \in {"and", "or"} -> \E i \in 1..Len(t.as) : UndefWalkShipped(t.as[i], rules)
    [] OTHER -> FALSE
RECURSIVE CycleWalkShipped(_, _, _)
CycleWalkShipped(t, seen, rules) ==
  CASE t.k = "rule" -> IF t.name \in seen THEN TRUE
                       ELSE IF Defined(rules, t.name) THEN CycleWalkShipped(Body(rules, t.name), seen \cup {t.name}, rules)
                       ELSE FALSE
    [] t.k \in {"and", "or"} -> \E i \in 1..Len(t.as) : CycleWalkShipped(t.as[i], seen, rules)
    [] OTHER -> FALSE
CheckRulesShipped(rules) == \A i \in 1..Len(rules) : ~UndefWalkShipped(rules[i][2], rules) /\ ~CycleWalkShipped(rules[i][2], {}, rules)

\* Enforcer.check_rules: TRUE = nothing to report
CheckRulesOp(rules) == \A i \in 1..Len(rules) : ~UndefWalk(rules[i][2], rules) /\ ~CycleWalk(rules[i][2], {}, rules)

\* ---- independent analysis
RECURSIVE Refs(_)
Refs(t) == CASE t.k = "rule" -> {t.name}
             [] t.k = "not" -> Refs(t.a)
             [] t.k \in {"and", "or"} -> UNION {Refs(t.as[i]) : i \in 1..Len(t.as)}
             [] OTHER -> {}
Succ(rules, n) == IF Defined(rules, n) THEN Refs(Body(rules, n)) \cap NameSet(rules) ELSE {}
RECURSIVE Closure(_, _, _)
Closure(rules, S, k) == IF k = 0 THEN S ELSE Closure(rules, S \cup UNION {Succ(rules, m) : m \in S}, k - 1)
ReachPlus(rules, n) == Closure(rules, Succ(rules, n), Len(rules))         \* names reachable in >= 1 step
OnCycle(rules, n) == n \in ReachPlus(rules, n)
HasUndefinedRef(rules, n) == Refs(Body(rules, n)) \ NameSet(rules) # {}
ReachesCycle(rules, n) == OnCycle(rules, n) \/ \E m \in ReachPlus(rules, n) : OnCycle(rules, m)
Problem(rules) == \E n \in NameSet(rules) : HasUndefinedRef(rules, n) \/ ReachesCycle(rules, n)
CheckRulesDecl(rules) == ~Problem(rules)

\* ---- oslopolicy-validator: 1 = failure
ValidatorRc(rules, missingFile, unknownName, unparseable) ==
  IF missingFile \/ ~CheckRulesDecl(rules) \/ unknownName \/ unparseable THEN 1 ELSE 0
=============================================================================
