"""A real directory tree that follows the abstract file system of
spec/Loader.tla: the main policy file, two policy directories (a third is
configured but never exists), a dot-file and a sub-directory that must be
ignored.  Modification times are set explicitly (os.utime) to BASE + the
specification's clock, for files and for directories, after every change."""
import json
import os
import shutil
import tempfile

import yaml

BASE = 1000000000
CONCRETE = {
    'main': 'policy.yaml',
    'd1/a': 'd1[site]/a-second-created.yaml',
    'd1/b': 'd1[site]/b-first-created.json',
    'd2/a': 'd2 *?/a.yaml',
    'd1/.hidden': 'd1[site]/.hidden.yaml',
    'd1/sub': 'd1[site]/sub',
}


def body_text(body):
    """abstract body -> rule text"""
    if body['k'] == 'alias':
        return 'rule:' + body['n']
    if body.get('text'):
        return body['text']           # a prescribed spelling of the same meaning
    roles = sorted(body['r'])
    if not roles:
        return '!'
    return ' or '.join('role:' + r for r in roles)


EMPTY_N = [0]


class Box:
    def __init__(self, rng, main_name='policy.yaml', make_dirs=True):
        self.root = tempfile.mkdtemp(prefix='verif_fs_')
        self.rng = rng
        self.clock = 1
        self.names = dict(CONCRETE)
        self.names['main'] = main_name
        # every top-level entry of a policy directory that does not start with a dot is a policy file,
        # whatever its name ends in (the relative sort order a < b inside d1 is kept)
        self.names['d1/a'] = 'd1[site]/' + rng.choice(['a-second-created.yaml', 'a.yaml~', 'a-site.json.orig', 'a.bak', 'a'])
        self.names['d1/b'] = 'd1[site]/' + rng.choice(['b-first-created.json', 'b.rpmsave', 'b.yaml.dpkg-old', 'b.rej'])
        self.names['d2/a'] = 'd2 *?/' + rng.choice(['a.yaml', '10-site.json.orig', 'overrides.bak', 'a.txt', 'A'])
        self.dirnames = {'d1': 'd1[site]', 'd2': 'd2 *?', 'd3': 'd3'}
        self.make_dirs = make_dirs
        self.dir_mtime = {}
        if make_dirs:
            for d in ('d1', 'd2'):
                os.makedirs(os.path.join(self.root, self.dirnames[d]))
            self.dir_mtime = {'d1': 1, 'd2': 1}
        self._stamp_dirs()

    def path(self, f):
        return os.path.join(self.root, self.names[f])

    def dirs(self):
        return [os.path.join(self.root, self.dirnames[d]) for d in ('d1', 'd2', 'd3')]

    def _stamp_dirs(self):
        for d, t in self.dir_mtime.items():
            os.utime(os.path.join(self.root, self.dirnames[d]), (BASE + t, BASE + t))

    def _dir_of(self, f):
        return f.split('/')[0] if '/' in f else None

    def _render(self, content):
        fmt = self.rng.choice(['json', 'yaml', 'yaml_block'])
        if any('@fixed' in r for b in content.values() if b['k'] == 'roles' for r in b['r']):
            fmt = 'json'          # clock-independent content is rendered byte-identically every time
        d = {n: body_text(b) for n, b in content.items()}
        if fmt == 'json':
            return json.dumps(d, indent=None if fmt == 'json' and any('@fixed' in t for t in d.values()) else self.rng.choice([None, 2]))
        if fmt == 'yaml':
            return yaml.safe_dump(d, default_flow_style=False) if d else ''
        return ''.join('"%s": "%s"\n' % (n, t) for n, t in d.items()) or '# nothing\n'

    def write(self, f, content):
        """content: dict name -> abstract body"""
        self.clock += 1
        p = self.path(f)
        existed = os.path.exists(p)
        if self._dir_of(f):
            os.makedirs(os.path.join(self.root, self.dirnames[self._dir_of(f)]), exist_ok=True)      # created with its first entry
        if f == 'd1/sub':
            os.makedirs(p, exist_ok=True)
            with open(os.path.join(p, 'x.yaml'), 'w') as fh:
                fh.write(self._render(content))
        else:
            with open(p, 'w') as fh:
                fh.write(self._render(content))
        os.utime(p, (BASE + self.clock, BASE + self.clock))
        d = self._dir_of(f)
        if d and not existed:
            self.dir_mtime[d] = self.clock
        self._stamp_dirs()
        return self.clock

    def empty(self, f):
        self.clock += 1
        p = self.path(f)
        with open(p, 'w') as fh:
            self.rng.choice(['', '', '{}', '# empty\n', '---\n'])       # (keeps the random stream of earlier rounds)
            # every spelling of "no definitions" is used in turn: nothing, an empty mapping, comments only, a bare
            # document marker, blank lines
            EMPTY_N[0] += 1
            fh.write(['# empty\n', '', '{}', '---\n', '#\n\n# nothing here\n', '\n\n'][EMPTY_N[0] % 6])
        os.utime(p, (BASE + self.clock, BASE + self.clock))
        self._stamp_dirs()
        return self.clock

    def touch(self, f):
        self.clock += 1
        p = self.path(f)
        os.utime(p, (BASE + self.clock, BASE + self.clock))
        self._stamp_dirs()
        return self.clock

    def replace(self, f, content, older):
        """rename another file into place: new content, the file's mtime equal to (or one below) the
        replaced file's, the directory's mtime advances"""
        self.clock += 1
        p = self.path(f)
        old = int(os.stat(p).st_mtime) - BASE
        tmp = os.path.join(self.root, 'incoming.tmp')
        with open(tmp, 'w') as fh:
            fh.write(self._render(content))
        t = old - 1 if older else old
        os.utime(tmp, (BASE + t, BASE + t))
        os.replace(tmp, p)
        self.dir_mtime[self._dir_of(f)] = self.clock
        self._stamp_dirs()
        return self.clock

    def mtime(self, f):
        return int(os.stat(self.path(f)).st_mtime) - BASE

    def delete(self, f):
        self.clock += 1
        os.unlink(self.path(f))
        d = self._dir_of(f)
        if d:
            self.dir_mtime[d] = self.clock
        self._stamp_dirs()
        return self.clock

    def exists(self, f):
        return os.path.exists(self.path(f))

    def close(self):
        shutil.rmtree(self.root, ignore_errors=True)
