"""Thin, strict wrapper around TLC.

Everything a check learns from the specification comes through here:

* ``run``          - run TLC on a module of /verif/spec with a generated cfg
* ``judge_cases``  - batch conformance: a JSON file of cases recorded from the
                     real code is handed to a ``Conf_*``/``Trace_*`` module;
                     TLC evaluates the spec's verdict for every case (one
                     initial state per case, ``-continue``) and we collect
                     the ids of the rejected ones
* ``eval_expr``    - evaluate constant expressions of a module (used to get
                     the spec's *expected* value for replay files and to let
                     TLC enumerate finite tables for spec->code replay)

Any irregularity (TLC crash, unparsable output, a count that does not add
up) raises ``TLCError``; the runner turns that into exit status 2 (machinery
failure), never into a verdict.
"""
import json
import os
import re
import shutil
import subprocess
import tempfile
import time

SPEC_DIR = os.path.join(os.path.dirname(os.path.dirname(os.path.abspath(__file__))), 'spec')
JAR = '/opt/veriftools/tla/tla2tools.jar:/opt/veriftools/tla/CommunityModules-deps.jar'
NCPU = max(2, (os.cpu_count() or 4) // 2)   # measured: 8 workers beat 16 on this box (state-queue contention)


class TLCError(Exception):
    pass


class TLCResult:
    def __init__(self):
        self.rc = None
        self.out = ''
        self.generated = 0
        self.distinct = 0
        self.violations = []      # list of dict(kind, name, state_text)
        self.prints = []          # PrintT outputs (raw text)
        self.coverage = {}        # action -> (distinct, total)
        self.wall = 0.0
        self.depth = 0

    @property
    def ok(self):
        return self.rc == 0 and not self.violations


_STATS = re.compile(r'^(\d+) states generated, (\d+) distinct states found, (\d+) states left on queue', re.M)
_DEPTH = re.compile(r'The depth of the complete state graph search is (\d+)')
_COV = re.compile(r'^<(\w+) line (\d+), col (\d+) to line (\d+), col (\d+) of module (\w+)>: (\d+):(\d+)', re.M)


def _parse(out, res):
    m = None
    for m in _STATS.finditer(out):
        pass
    if m:
        res.generated, res.distinct = int(m.group(1)), int(m.group(2))
    if not res.generated:
        ms = re.search(r'The number of states generated: (\d+)', out)       # -simulate mode
        if ms:
            res.generated = int(ms.group(1))
    m = _DEPTH.search(out)
    if m:
        res.depth = int(m.group(1))
    for m in _COV.finditer(out):
        res.coverage[m.group(1)] = (int(m.group(7)), int(m.group(8)))
    # violations: "Error: Invariant X is violated." / "...by the initial state:"
    lines = out.split('\n')
    i = 0
    while i < len(lines):
        ln = lines[i]
        m = re.match(r'Error: Invariant (\w+) is violated( by the initial state:)?', ln)
        m2 = re.match(r'Error: Action property (\w+) is violated', ln)
        m3 = re.match(r'Error: Temporal properties were violated', ln)
        m4 = re.match(r'Error: Deadlock reached', ln)
        if m or m2 or m3 or m4:
            name = (m or m2).group(1) if (m or m2) else ('Liveness' if m3 else 'Deadlock')
            kind = 'invariant' if m else ('action' if m2 else ('liveness' if m3 else 'deadlock'))
            j = i + 1
            buf = []
            while j < len(lines):
                l2 = lines[j]
                if re.match(r'Error: (Invariant|Action property|Temporal|Deadlock)', l2):
                    break
                if re.match(r'^(Finished|Progress\(|\d+ states generated|Model checking completed|The number of states|Finished computing initial states)', l2):
                    break
                buf.append(l2)
                j += 1
            res.violations.append({'kind': kind, 'name': name, 'text': '\n'.join(buf).strip()})
            i = j
            continue
        i += 1


def run(module, cfg, env=None, workers=None, simulate=None, depth=None,
        cont=False, coverage=False, timeout=3600, extra=(), deadlock=False,
        seed=None, jvm=(), spec_dir=SPEC_DIR, heap='8g', dfs=False):
    """Run TLC.  ``cfg`` is the text of the configuration file."""
    work = tempfile.mkdtemp(prefix='verif_tlc_')
    res = TLCResult()
    try:
        cfgp = os.path.join(work, module + '.cfg')
        with open(cfgp, 'w') as f:
            f.write(cfg)
        cmd = ['java', '-XX:+UseParallelGC', '-Xmx' + heap, '-Xss64m']
        if dfs:
            cmd.append('-Dtlc2.tool.queue.IStateQueue=StateDeque')
        cmd += list(jvm)
        cmd += ['-cp', JAR, 'tlc2.TLC', '-config', cfgp,
                '-metadir', os.path.join(work, 'meta'), '-noGenerateSpecTE',
                '-workers', str(workers or NCPU)]
        if not deadlock:
            cmd.append('-deadlock')
        if cont:
            cmd.append('-continue')
        if coverage:
            cmd += ['-coverage', '1']
        if simulate:
            cmd += ['-simulate', simulate]
        if depth:
            cmd += ['-depth', str(depth)]
        if seed is not None:
            cmd += ['-seed', str(seed)]
        cmd += list(extra)
        cmd.append(module)
        e = dict(os.environ)
        e.pop('JAVA_TOOL_OPTIONS', None)
        if env:
            e.update({k: str(v) for k, v in env.items()})
        t0 = time.time()
        try:
            p = subprocess.run(cmd, cwd=spec_dir, env=e, stdout=subprocess.PIPE,
                               stderr=subprocess.STDOUT, timeout=timeout)
        except subprocess.TimeoutExpired as ex:
            raise TLCError('TLC timed out after %ss on %s' % (timeout, module)) from ex
        res.wall = time.time() - t0
        res.rc = p.returncode
        res.out = p.stdout.decode('utf-8', 'replace')
        _parse(res.out, res)
        # rc: 0 ok, 12 safety violation, 13 liveness violation, 11 deadlock
        if res.rc not in (0, 10, 11, 12, 13):
            raise TLCError('TLC failed rc=%s on %s:\n%s' % (res.rc, module, res.out[-4000:]))
        if res.rc in (10, 11, 12, 13) and not res.violations:
            raise TLCError('TLC reported rc=%s but no violation could be parsed:\n%s' % (res.rc, res.out[-4000:]))
        if 'Error:' in res.out and not res.violations:
            raise TLCError('TLC error on %s:\n%s' % (module, res.out[-4000:]))
        return res
    finally:
        shutil.rmtree(work, ignore_errors=True)


def model_check(module, cfg, **kw):
    """Exhaustive run that must finish cleanly; returns the result (caller
    inspects .violations)."""
    kw.setdefault('coverage', False)
    return run(module, cfg, **kw)


_CID = re.compile(r'\bcid = (\d+)')


def judge_cases(module, cases, cfg_extra='', invariant='Conforms', workers=None,
                timeout=3600, env=None, chunk=None, consts=None):
    """Hand ``cases`` (a list of JSON-able dicts, 1-based ids = position) to
    TLC module ``module`` which must define

        VARIABLES cid, ...      Init / Next / vars     (SPECIFICATION Spec)
        Conforms                state invariant: the recorded observation of
                                case ``cid`` is one the specification allows

    and read the cases with ``JsonDeserialize(IOEnv.VERIF_CASES)``.
    Returns (rejected_ids (sorted list, 1-based), stats dict).
    """
    if not cases:
        return [], {'states': 0, 'generated': 0, 'wall': 0.0}
    rejected = []
    tot_gen = tot_dist = 0
    wall = 0.0
    step = chunk or len(cases)
    for off in range(0, len(cases), step):
        part = cases[off:off + step]
        fd, path = tempfile.mkstemp(prefix='verif_cases_', suffix='.json')
        try:
            with os.fdopen(fd, 'w') as f:
                json.dump(part, f, separators=(',', ':'))
            cfg = 'SPECIFICATION Spec\nINVARIANT %s\nCHECK_DEADLOCK FALSE\n' % invariant
            if consts:
                cfg += 'CONSTANTS\n' + ''.join('  %s = %s\n' % kv for kv in consts.items())
            cfg += cfg_extra
            e = {'VERIF_CASES': path}
            if env:
                e.update(env)
            res = run(module, cfg, env=e, workers=workers, cont=True, timeout=timeout)
            wall += res.wall
            tot_gen += res.generated
            tot_dist += res.distinct
            ids = set()
            for v in res.violations:
                if v['name'] != invariant:
                    raise TLCError('unexpected violation %s in %s:\n%s' % (v['name'], module, v['text'][:2000]))
                found = _CID.findall(v['text'])
                if not found:
                    raise TLCError('violation without cid in %s:\n%s' % (module, v['text'][:2000]))
                ids.add(int(found[-1]) + off)
            if res.distinct < len(part):
                raise TLCError('%s: TLC saw %d distinct states for %d cases' % (module, res.distinct, len(part)))
            rejected.extend(sorted(ids))
        finally:
            try:
                os.unlink(path)
            except OSError:
                pass
    return rejected, {'states': tot_dist, 'generated': tot_gen, 'wall': wall}


def eval_expr(module, exprs, env=None, timeout=600, extends=()):
    """Evaluate constant TLA+ expressions in the context of ``module``.
    Returns list of TLC's printed values (strings).  Implemented with a
    generated wrapper module and PrintT from an ASSUME, single worker."""
    work = tempfile.mkdtemp(prefix='verif_eval_')
    try:
        name = 'EvalTmp'
        body = ['---- MODULE %s ----' % name,
                'EXTENDS %s' % ', '.join([module] + list(extends) + ['TLC'] if 'TLC' not in extends else [module] + list(extends))]
        for k, ex in enumerate(exprs):
            body.append('ASSUME PrintT(<<"EVAL", %d, %s>>)' % (k, ex))
        body.append('VARIABLE evx\nEvInit == evx = 0\nEvNext == UNCHANGED evx')
        body.append('====')
        with open(os.path.join(work, name + '.tla'), 'w') as f:
            f.write('\n'.join(body))
        for fn in os.listdir(SPEC_DIR):
            if fn.endswith('.tla'):
                shutil.copy(os.path.join(SPEC_DIR, fn), work)
        res = run(name, 'INIT EvInit\nNEXT EvNext\n', env=env, workers=1, timeout=timeout, spec_dir=work)
        vals = {}
        for m in re.finditer(r'<<"EVAL", (\d+), (.*?)>>\n(?=<<"EVAL"|Starting|Computing|Finished|Implied|$)', res.out, re.S):
            vals[int(m.group(1))] = m.group(2).strip()
        if len(vals) != len(exprs):
            raise TLCError('eval_expr: got %d of %d values\n%s' % (len(vals), len(exprs), res.out[-3000:]))
        return [vals[k] for k in range(len(exprs))]
    finally:
        shutil.rmtree(work, ignore_errors=True)
