"""alpha/gamma for the evaluation layer (spec/PolicyEval.tla).

Abstract check trees are Python dicts shaped exactly like the TLA+ records;
``rule_text`` renders them to the rule language for the real code, the very
same dict (minus '_' fields) is what TLC sees.  Values (targets, credentials)
are encoded with their Python string form and truthiness."""
import ast
import collections.abc
import json

from harness import lang


def cps(s):
    return [ord(ch) for ch in s]


def uncps(a):
    return ''.join(chr(c) for c in a)


# ---------------------------------------------------------------- values

class Opaque:
    """an opaque (non-JSON) object inside a target"""

    def __repr__(self):
        return '<opaque>'


def enc(v):
    """JSON-like Python value -> value record of PolicyEval."""
    if isinstance(v, Opaque) or type(v) is object:
        return {'t': 'o', 's': cps('<opaque>')}
    if isinstance(v, collections.abc.Mapping):
        return {'t': 'd', 's': cps(str(v)) if isinstance(v, dict) else cps('<mapping>'),
                'e': [[cps(str(k)), enc(x)] for k, x in v.items()]}
    if isinstance(v, (list, tuple)):
        return {'t': 'l', 's': cps(str(v)), 'e': [enc(x) for x in v]}
    return {'t': 's', 's': cps(str(v)), 'y': 1 if v else 0}


def lowmap_for(*texts):
    """<<code point, lower code point>> pairs for every character occurring
    (only one-to-one case mappings are inside the properties' alphabets)."""
    chars = set()
    for t in texts:
        chars.update(t)
    out = []
    for ch in sorted(chars):
        lo = ch.lower()
        if len(lo) == 1 and lo != ch:
            out.append([ord(ch), ord(lo)])
        elif len(lo) != 1:
            raise ValueError('character %r has no one-to-one lower case' % ch)
    return out


def all_text(v, acc):
    """collect every string inside a Python value"""
    if isinstance(v, str):
        acc.append(v)
    elif isinstance(v, collections.abc.Mapping):
        for k, x in v.items():
            acc.append(str(k))
            all_text(x, acc)
    elif isinstance(v, (list, tuple)):
        for x in v:
            all_text(x, acc)
    else:
        acc.append(str(v))
    return acc


# ---------------------------------------------------------------- templates

def lit(s):
    # in a rule a literal percent sign is written %% (the text is a %-format template)
    return {'k': 'lit', 's': cps(s), '_s': s.replace('%', '%%')}


def ph(key):
    return {'k': 'ph', 'key': cps(key), '_s': '%(' + key + ')s'}


def template_text(parts):
    return ''.join(p['_s'] for p in parts)


# ---------------------------------------------------------------- leaves / trees

T = {'k': 'T'}
F = {'k': 'F'}


def Not(a):
    return {'k': 'not', 'a': a}


def And(*xs):
    return {'k': 'and', 'as': list(xs)}


def Or(*xs):
    return {'k': 'or', 'as': list(xs)}


def role(*parts):
    parts = [lit(p) if isinstance(p, str) else p for p in parts]
    return {'k': 'role', 'parts': parts}


def rule(name):
    return {'k': 'rule', 'name': name}


def probe(pid, arity, flag, derived=False):
    return {'k': 'probe', 'id': pid, 'arity': arity, 'flag': cps(flag), '_flag': flag, '_derived': derived}


def http(scheme, *parts):
    parts = [lit(p) if isinstance(p, str) else p for p in parts]
    return {'k': 'http', 'scheme': scheme, 'parts': parts}


def is_literal(lhs):
    """The definition of "Python literal" in C05/C14: ast.literal_eval
    succeeds (trusted built-in).  Returns (True, str(value)) or (False, None)."""
    try:
        return True, str(ast.literal_eval(lhs))
    except Exception:
        return False, None


def generic(lhs, *parts):
    parts = [lit(p) if isinstance(p, str) else p for p in parts]
    isl, sform = is_literal(lhs)
    return {'k': 'generic', 'lit': 1 if isl else 0, 'ls': cps(sform) if isl else [],
            'path': [cps(seg) for seg in lhs.split('.')], 'parts': parts, '_lhs': lhs}


def leaf_text(t):
    k = t['k']
    if k == 'T':
        return '@'
    if k == 'F':
        return '!'
    if k == 'role':
        return 'role:' + template_text(t['parts'])
    if k == 'generic':
        return t['_lhs'] + ':' + template_text(t['parts'])
    if k == 'rule':
        return 'rule:' + t['name']
    if k == 'probe':
        return 'p%d%s:%s' % (t['arity'], {True: 'b', 'n': 'n'}.get(t.get('_derived'), ''), t['_flag'] + '#%d' % t['id'])
    if k == 'http':
        return t['scheme'] + ':' + template_text(t['parts'])
    raise ValueError(k)


PREC = {'or': 1, 'and': 2, 'not': 3}


def rule_text(t, rng=None, parent=0):
    """precedence-aware rendering; with rng: keyword case / blanks / extra
    grouping variants"""
    k = t['k']
    sp = (lambda: rng.choice([' ', '  ', '\t', '\n'])) if rng else (lambda: ' ')
    kw = (lambda w: lang._case_variant(w, rng)) if rng else (lambda w: w)
    if k == 'not':
        s = kw('not') + sp() + rule_text(t['a'], rng, PREC['not'])
    elif k in ('and', 'or'):
        parts = []
        for c in t['as']:
            sub = rule_text(c, rng, PREC[k])
            if c['k'] == k:
                sub = '(' + sub + ')'
            parts.append(sub)
        s = (sp() + kw(k) + sp()).join(parts)
        if PREC[k] < parent or parent == PREC['not']:
            return '(' + s + ')'
    else:
        s = leaf_text(t)
    if rng is not None and rng.random() < 0.1:
        s = '(' + s + ')'
    return s


def strip(x):
    """drop '_' fields recursively (what TLC sees)"""
    if isinstance(x, dict):
        return {k: strip(v) for k, v in x.items() if not k.startswith('_')}
    if isinstance(x, list):
        return [strip(v) for v in x]
    return x


def tree_strings(t, acc):
    if isinstance(t, dict):
        for k, v in t.items():
            if k == '_derived':
                continue
            if k == '_s' or k == '_flag' or k == '_lhs':
                acc.append(v)
            else:
                tree_strings(v, acc)
    elif isinstance(t, list):
        for v in t:
            tree_strings(v, acc)
    return acc


# ---------------------------------------------------------------- probes

PROBE_LOG = []


def install_probes():
    """Register two custom check classes with the real library: p4 accepts the
    current rule name, p3 does not.  Both allow iff their flag is listed in
    creds['f'] and record what they were told."""
    from oslo_policy import _checks

    # a check may answer with any truthy / falsy value, not only True / False
    FALSY = [False, None, 0, '', [], {}, 0.0]
    TRUTHY = [True, 'yes', 1, [0], {'a': 1}, 2.5]

    def verdict(flag, pid, creds):
        ok = flag in creds.get('f', [])
        return (TRUTHY if ok else FALSY)[int(pid) % 7 % (6 if ok else 7)]

    class P4(_checks.Check):
        def __call__(self, target, creds, enforcer, current_rule=None):
            flag, pid = self.match.rsplit('#', 1)
            PROBE_LOG.append(['probe', int(pid), '' if current_rule is None else current_rule])
            return verdict(flag, pid, creds)

    class P3(_checks.Check):
        def __call__(self, target, creds, enforcer):
            flag, pid = self.match.rsplit('#', 1)
            PROBE_LOG.append(['probe', int(pid), '<noarg>'])
            return verdict(flag, pid, creds)

    # the fourth parameter receives the rule name whatever it is called
    class P4n(_checks.Check):
        def __call__(self, target, creds, enforcer, policy_name=None):
            flag, pid = self.match.rsplit('#', 1)
            PROBE_LOG.append(['probe', int(pid), '' if policy_name is None else policy_name])
            return verdict(flag, pid, creds)

    # derived classes whose call signature differs from their base's: the arity is a
    # property of the class being called, not of an ancestor evaluated earlier
    class P3b(P4):
        def __call__(self, target, creds, enforcer):
            flag, pid = self.match.rsplit('#', 1)
            PROBE_LOG.append(['probe', int(pid), '<noarg>'])
            return flag in creds.get('f', [])

    class P4b(P3):
        def __call__(self, target, creds, enforcer, current_rule=None):
            flag, pid = self.match.rsplit('#', 1)
            PROBE_LOG.append(['probe', int(pid), '' if current_rule is None else current_rule])
            return flag in creds.get('f', [])

    _checks.register('p4', P4)
    _checks.register('p3', P3)
    _checks.register('p3b', P3b)
    _checks.register('p4b', P4b)
    _checks.register('p4n', P4n)


# ---------------------------------------------------------------- enforce driver

class CustomExc(Exception):
    def __init__(self, *args, **kwargs):
        super().__init__(*args)
        self.kw = kwargs


# the caller's exception class may derive from any built-in exception (library code that catches
# TypeError / KeyError / ValueError / LookupError around its own calls must not swallow it)
class CustomTypeError(TypeError):
    def __init__(self, *args, **kwargs):
        super().__init__(*args)
        self.kw = kwargs


class CustomKeyError(KeyError):
    def __init__(self, *args, **kwargs):
        super().__init__(*args)
        self.kw = kwargs


class CustomValueError(ValueError):
    def __init__(self, *args, **kwargs):
        super().__init__(*args)
        self.kw = kwargs


class CustomRuntime(RuntimeError, AttributeError):
    def __init__(self, *args, **kwargs):
        super().__init__(*args)
        self.kw = kwargs


CUSTOM_CLASSES = (CustomExc, CustomTypeError, CustomKeyError, CustomValueError, CustomRuntime)


def make_enforcer(rules, dflt=None, registered=(), enforce_scope=True, via='rules_obj', conf_default=None):
    """A real Enforcer holding ``rules`` (name -> rule text).  ``dflt``: None
    (library default option 'default'), ('name', n) or ('check', tree) via the
    constructor, or ('opt', n) through the policy_default_rule option."""
    from oslo_config import cfg
    from oslo_policy import policy, _parser
    conf = cfg.ConfigOpts()
    conf([], project='verif', default_config_files=[], default_config_dirs=[])
    kw = {}
    e = None
    if via == 'set_defaults' and any(name not in rules for name, _s, _t in registered):
        via = 'rules_obj'
    if dflt is not None and dflt[0] == 'opt' and via == 'set_defaults':
        pass
    elif dflt is not None and dflt[0] == 'opt':
        e0 = policy.Enforcer(conf, use_conf=False)      # registers the options
        conf.set_override('policy_default_rule', dflt[1], group='oslo_policy')
    elif dflt is not None and dflt[0] == 'name':
        kw['default_rule'] = dflt[1]
    elif dflt is not None and dflt[0] == 'check':
        kw['default_rule'] = _parser.parse_rule(rule_text(dflt[1]))
    if via == 'set_defaults':
        # the options take their values from opts.set_defaults(conf, policy_file, **defaults) - how a service
        # changes the library's defaults - in ONE call; the option objects are process-global, so their
        # defaults are put back after the call under observation (enforce_case calls e._verif_restore)
        import atexit
        import json as _json
        import os
        import shutil
        import tempfile
        from oslo_policy import opts
        d = tempfile.mkdtemp(prefix='verif_enf_')
        atexit.register(shutil.rmtree, d, True)
        main = os.path.join(d, 'policy.json')
        with open(main, 'w') as f:
            _json.dump(rules, f)
        saved = {o.name: (o.default, o._set_location) for o in opts._options}

        def restore(saved=saved):
            for o in opts._options:
                o.default, o._set_location = saved[o.name]
        kwd = {'enforce_scope': bool(enforce_scope)}
        if dflt is not None and dflt[0] == 'opt':
            kwd['policy_default_rule'] = dflt[1]
        try:
            opts.set_defaults(conf, main, **kwd)
            e = policy.Enforcer(conf, **kw)
            for name, scopes, text in registered:
                e.register_default(policy.RuleDefault(name, text, scope_types=scopes or None))
        except BaseException:
            restore()
            raise
        e._verif_restore = restore
        return e
    # how the rule set reaches the enforcer is a free variable of the
    # properties: a Rules object (carrying the enforcer's default, or a
    # default rule of its own, which the enforcer must ignore), a plain dict
    # of parsed checks, or the constructor's ``rules`` argument
    if via in ('main_file', 'dir_only') and any(name not in rules for name, _s, _t in registered):
        via = 'rules_obj'           # (a registered default would define a name the rule set leaves undefined)
    if via in ('main_file', 'dir_only'):
        # the rule set is read by the enforcer itself: from its policy file, or - the policy file being
        # absent - from a file in a policy directory
        import atexit
        import json as _json
        import os
        import shutil
        import tempfile
        d = tempfile.mkdtemp(prefix='verif_enf_')
        atexit.register(shutil.rmtree, d, True)
        main = os.path.join(d, 'policy.json')
        pdir = os.path.join(d, 'policy.d')
        os.makedirs(pdir)
        with open(main if via == 'main_file' else os.path.join(pdir, 'rules.json'), 'w') as f:
            if rules:
                _json.dump(rules, f)
            else:
                # an empty rule set is also a file with nothing but a comment, a bare document marker, or nothing
                f.write(['{}', '# no overrides\n', '---\n', '', '#\n\n'][len(repr(dflt)) % 5])
        e = policy.Enforcer(conf, policy_file=main, **kw)
        conf.set_override('policy_dirs', [pdir], group='oslo_policy')
        conf.set_override('enforce_scope', bool(enforce_scope), group='oslo_policy')
        for name, scopes, text in registered:
            e.register_default(policy.RuleDefault(name, text, scope_types=scopes or None))
        return e            # (the first enforcement call loads the rules: whatever happens then is an observation)
    if via == 'ctor':
        kw['rules'] = {n: _parser.parse_rule(t) for n, t in rules.items()}
    elif via == 'ctor_own_default':
        kw['rules'] = policy.Rules.from_dict(rules, 'd' if 'd' in rules else (sorted(rules)[0] if rules else 'default'))
    e = policy.Enforcer(conf, use_conf=False, **kw)
    conf.set_override('enforce_scope', bool(enforce_scope), group='oslo_policy')
    for name, scopes, text in registered:
        e.register_default(policy.RuleDefault(name, text, scope_types=scopes or None))
    if via == 'rules_obj':
        e.set_rules(policy.Rules.from_dict(rules, e.default_rule), use_conf=False)
    elif via == 'own_default':
        e.set_rules(policy.Rules.from_dict(rules, 'd' if 'd' in rules else (sorted(rules)[0] if rules else 'default')), use_conf=False)
    elif via == 'no_default':
        e.set_rules(policy.Rules.from_dict(rules), use_conf=False)           # a Rules object without any default rule
    elif via == 'loaded':
        import json as _json
        e.set_rules(policy.Rules.load(_json.dumps(rules)), use_conf=False)
    elif via == 'dict':
        e.set_rules({n: _parser.parse_rule(t) for n, t in rules.items()}, use_conf=False)
    return e


LAST_RAW = []


def observe(fn):
    """Run one call of the real code; normalise the outcome to the spec's
    alphabet.  Any exception class outside the documented ones keeps its own
    name, which no spec action produces."""
    from oslo_policy import policy
    del PROBE_LOG[:]
    del LAST_RAW[:]
    try:
        v = fn()
        LAST_RAW[:] = [type(v).__name__]
        return {'o': 'ret', 'v': 1 if v else 0, 'cls': '', 'msg': ''}
    except CUSTOM_CLASSES as ex:
        return {'o': 'raise', 'v': 0, 'cls': 'Custom', 'msg': '', 'xargs': list(ex.args), 'xkw': sorted(ex.kw.items()),
                'exact': type(ex).__name__}
    except (policy.PolicyNotAuthorized, policy.InvalidScope, policy.InvalidContextObject,
            policy.PolicyNotRegistered) as ex:
        return {'o': 'raise', 'v': 0, 'cls': type(ex).__name__, 'msg': str(ex)}
    except RecursionError as ex:
        return {'o': 'raise', 'v': 0, 'cls': 'RecursionError', 'msg': ''}
    except Exception as ex:
        return {'o': 'raise', 'v': 0, 'cls': type(ex).__name__, 'msg': str(ex)[:200]}
