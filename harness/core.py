"""Runner core: tiers, seeds, verdict bookkeeping, known findings, replay
files and evidence files.  Exit status: 0 held, 1 violation, 2 machinery."""
import json
import os
import random
import sys
import time
import traceback

ROOT = os.path.dirname(os.path.dirname(os.path.abspath(__file__)))
REPO = os.environ.get('VERIF_REPO', '/repo')
GUARD = 'OSLO_POLICY_VERIF'


def use_repo():
    """Make ``import oslo_policy`` resolve to the tree under test (``/repo``
    unless VERIF_REPO points at a scratch copy) - always the current working
    tree, nothing is installed or copied."""
    os.environ[GUARD] = '1'
    if REPO in sys.path:
        sys.path.remove(REPO)
    sys.path.insert(0, REPO)
    for m in list(sys.modules):
        if m == 'oslo_policy' or m.startswith('oslo_policy.'):
            del sys.modules[m]
    import oslo_policy
    got = os.path.dirname(os.path.dirname(os.path.abspath(oslo_policy.__file__)))
    if os.path.realpath(got) != os.path.realpath(REPO):
        raise RuntimeError('oslo_policy imported from %s, wanted %s' % (got, REPO))
    import logging
    logging.disable(logging.CRITICAL)
    lg = logging.getLogger('oslo_policy')        # some tools re-enable logging: keep it off the console
    lg.addHandler(logging.NullHandler())
    lg.propagate = False
    import warnings
    warnings.simplefilter('ignore')


class Ctx:
    """What a check module receives and fills in."""

    def __init__(self, pid, tier, seed):
        self.pid = pid
        self.tier = tier
        self.quick = tier == 'quick'
        self.seed = seed
        self.rng = random.Random(seed * 1000003 + int(pid[1:]))
        self.t0 = time.time()
        self.states = 0            # MC: distinct states (TLC statistics)
        self.transitions = 0       # MC: states generated (TLC statistics)
        self.traces = 0            # cases/traces run against the real code and judged by TLC
        self.samples = []
        self.violations = []       # dict(key, what, detail)
        self.notes = []            # drift notes, bounds...
        self.assumptions = []
        self.cover = {}            # free-form coverage facts
        self.exhaustive = False
        self.mc_runs = []

    def add_mc(self, name, res, must_hold=True):
        """Account a TLC model-checking run.  ``must_hold``: a violation of
        the design invariants is a finding about the algorithm as specified;
        it is reported as a violation keyed by the invariant name."""
        self.states += res.distinct
        self.transitions += res.generated
        self.mc_runs.append({'config': name, 'distinct': res.distinct, 'generated': res.generated,
                             'depth': res.depth, 'wall_s': round(res.wall, 2),
                             'violations': [v['name'] for v in res.violations],
                             'coverage': {k: list(v) for k, v in res.coverage.items()}})
        if must_hold:
            for v in res.violations:
                self.violation('mc:%s:%s' % (name, v['name']),
                               'specification %s violates %s' % (name, v['name']),
                               {'tlc': v['text'][:3000]})

    def sample(self, s, limit=12):
        if len(self.samples) < limit:
            self.samples.append(s)

    def violation(self, key, what, detail=None):
        self.violations.append({'key': key, 'what': what, 'detail': detail or {}})

    def note(self, s):
        if len(self.notes) < 200:
            self.notes.append(s)


def load_known():
    p = os.path.join(ROOT, 'known_findings.json')
    if not os.path.exists(p):
        return {'findings': [], 'fixed': []}
    with open(p) as f:
        return json.load(f)


def finish(ctx, level='model_checking'):
    known = load_known()
    known_keys = {(k['property'], k['key']): k for k in known.get('findings', [])}
    real = []
    seen_known = {}
    for v in ctx.violations:
        kk = (ctx.pid, v['key'])
        if kk in known_keys:
            seen_known.setdefault(v['key'], v)
        else:
            real.append(v)
    for key, v in sorted(seen_known.items()):
        print('KNOWN-FINDING: property=%s %s [%s]' % (ctx.pid, known_keys[(ctx.pid, key)]['what'], key))
    # group real violations by key; one replay file per key (first 5 instances kept)
    bykey = {}
    for v in real:
        bykey.setdefault(v['key'], []).append(v)
    rdir = os.path.join(os.environ.get('VERIF_REPLAY_DIR', os.path.join(ROOT, 'replays')), ctx.pid)
    if os.path.isdir(rdir):
        for fn in os.listdir(rdir):
            if fn.endswith('.json'):
                os.unlink(os.path.join(rdir, fn))
    for key, vs in sorted(bykey.items()):
        os.makedirs(rdir, exist_ok=True)
        safe = ''.join(ch if ch.isalnum() or ch in '-_.' else '_' for ch in key)[:120]
        path = os.path.join(rdir, safe + '.json')
        with open(path, 'w') as f:
            json.dump({'property': ctx.pid, 'key': key, 'what': vs[0]['what'], 'count': len(vs),
                       'seed': ctx.seed, 'tier': ctx.tier,
                       'instances': [x['detail'] for x in vs[:5]]}, f, indent=1, default=repr)
        print('VIOLATION property=%s replay=%s' % (ctx.pid, path))
        print('  %s (%d instance%s)' % (vs[0]['what'], len(vs), '' if len(vs) == 1 else 's'))
    wall = time.time() - ctx.t0
    cov = {
        'states': int(ctx.states),
        'transitions': int(ctx.transitions),
        'traces_validated_against_impl': int(ctx.traces),
        'samples': ctx.samples or ['(no sample recorded)'],
        'exhaustive': bool(ctx.exhaustive),
        'mc_runs': ctx.mc_runs,
        'notes': ctx.notes,
        'known_findings_seen': sorted(seen_known),
    }
    cov.update(ctx.cover)
    ev = {'property_id': ctx.pid, 'tier': ctx.tier, 'seed': ctx.seed, 'level': level,
          'coverage': cov, 'assumptions': ctx.assumptions, 'wall_s': round(wall, 2),
          'violations': len(bykey)}
    edir = os.environ.get('VERIF_EVIDENCE_DIR', os.path.join(ROOT, 'evidence'))
    os.makedirs(edir, exist_ok=True)
    with open(os.path.join(edir, ctx.pid + '.json'), 'w') as f:
        json.dump(ev, f, indent=1, default=repr)
    print('%s %s: states=%d transitions=%d traces=%d violations=%d known=%d wall=%.1fs' % (
        ctx.pid, ctx.tier, ctx.states, ctx.transitions, ctx.traces, len(bykey), len(seen_known), wall))
    return 1 if bykey else 0


def main(pid, run_fn, argv=None):
    import argparse
    ap = argparse.ArgumentParser()
    ap.add_argument('--tier', default=os.environ.get('VERIF_TIER', 'quick'), choices=['quick', 'thorough'])
    ap.add_argument('--seed', type=int, default=int(os.environ.get('VERIF_SEED', '0') or 0))
    a = ap.parse_args(argv)
    ctx = Ctx(pid, a.tier, a.seed)
    try:
        use_repo()
        run_fn(ctx)
        rc = finish(ctx)
        if rc == 0 and ctx.cover.get('canary_failures'):
            for m in ctx.cover['canary_failures']:
                print(m[:2000])
            print('MACHINERY-FAILURE property=%s' % pid)
            rc = 2
    except Exception:
        traceback.print_exc()
        print('MACHINERY-FAILURE property=%s' % pid)
        rc = 2
    sys.stdout.flush()
    return rc
