"""Deterministic schedule enumeration on the real code (C20).

A call runs in its own thread under a line tracer restricted to the files of
the library under test; at its k-th line event it parks (signals the
controller and waits), the controller lets the other call run to completion
in a second thread, then resumes the parked one.  No sleeps, no timing:
hand-over is by events.  If the second call blocks (it waits for a lock the
parked one holds) the schedule is infeasible at that point: the parked call
is resumed and the second finishes afterwards."""
import os
import sys
import threading


class Parked(Exception):
    pass


class LineParker:
    def __init__(self, root, k):
        self.root = os.path.join(os.path.realpath(root), 'oslo_policy') + os.sep
        self.k = k
        self.count = 0
        self.parked = threading.Event()
        self.resume = threading.Event()
        self.where = None
        self.on_park = None
        self.on_line = None     # called in the traced thread at every library line event

    def _local(self, frame, event, arg):
        if event == 'line':
            self.count += 1
            if self.on_line is not None:
                self.on_line(self.count)
            if self.count == self.k:
                self.where = (os.path.basename(frame.f_code.co_filename), frame.f_code.co_name, frame.f_lineno)
                self.parked.set()
                self.resume.wait()
        return self._local

    def tracer(self, frame, event, arg):
        fn = frame.f_code.co_filename
        if event == 'call' and os.path.realpath(fn).startswith(self.root) and '/tests/' not in fn:
            return self._local
        return None


def count_lines(root, fn, on_line=None):
    p = LineParker(root, -1)
    p.on_line = on_line

    def body():
        sys.settrace(p.tracer)
        try:
            fn()
        finally:
            sys.settrace(None)
    t = threading.Thread(target=body)
    t.start()
    t.join()
    return p.count


def run_parked(root, k, first, at_park, block_timeout=1.5):
    """Run ``first`` under the tracer; when it parks at its k-th line event
    call ``at_park()`` (in the controller thread; it typically runs the other
    call in a thread of its own), then resume.  Returns dict(parked, where,
    first_result, first_exc)."""
    p = LineParker(root, k)
    out = {'parked': False, 'where': None, 'first': None, 'first_exc': None, 'mid': None}

    def body():
        sys.settrace(p.tracer)
        try:
            out['first'] = first()
        except BaseException as ex:        # noqa
            out['first_exc'] = '%s: %s' % (type(ex).__name__, ex)
        finally:
            sys.settrace(None)
            p.parked.set()
    t = threading.Thread(target=body)
    t.start()
    p.parked.wait()
    if t.is_alive() and p.where is not None:
        out['parked'] = True
        out['where'] = p.where
        try:
            out['mid'] = at_park(p)
        finally:
            p.resume.set()
    t.join()
    return out


def interleaved(root, k, first, other):
    """``first()`` runs in its own thread and is suspended at its k-th library line event while
    ``other()`` runs to completion; then it resumes.  Returns first's result (or re-raises what it
    raised) - used for non-interference checks: a call decides on its own arguments whatever
    other calls do to shared objects in between."""
    p = LineParker(root, k)
    box = {}

    def body():
        sys.settrace(p.tracer)
        try:
            box['r'] = first()
        except BaseException as ex:        # noqa
            box['e'] = ex
        finally:
            sys.settrace(None)
            p.parked.set()
    t = threading.Thread(target=body)
    t.start()
    p.parked.wait()
    if t.is_alive() and p.where is not None:
        try:
            other()
        finally:
            p.resume.set()
    t.join()
    if 'e' in box:
        raise box['e']
    return box.get('r')


def run_in_thread(fn, timeout):
    """returns (finished_within_timeout, result_holder, thread)"""
    holder = {}

    def body():
        try:
            holder['result'] = fn()
        except BaseException as ex:      # noqa
            holder['exc'] = '%s: %s' % (type(ex).__name__, ex)
    t = threading.Thread(target=body)
    t.start()
    t.join(timeout)
    return (not t.is_alive()), holder, t


class TracedCall:
    """a call in its own thread that parks at its k-th library line event
    (k <= 0: never parks)"""

    def __init__(self, root, k, fn):
        self.p = LineParker(root, k)
        self.fn = fn
        self.result = None
        self.exc = None
        self.done = threading.Event()
        self.t = threading.Thread(target=self._body)

    def _body(self):
        sys.settrace(self.p.tracer)
        try:
            self.result = self.fn()
        except BaseException as ex:       # noqa
            self.exc = '%s: %s' % (type(ex).__name__, ex)
        finally:
            sys.settrace(None)
            self.done.set()
            self.p.parked.set()

    def start_and_wait(self):
        """start; returns True when parked, False when it ran to completion"""
        self.t.start()
        self.p.parked.wait()
        return not self.done.is_set()

    def resume(self):
        self.p.resume.set()

    def join(self, timeout=None):
        self.t.join(timeout)
        return not self.t.is_alive()


def line_profile(root, fn):
    """sequence of (function name, line) of the library line events of fn"""
    seq = []
    rootp = os.path.join(os.path.realpath(root), 'oslo_policy') + os.sep

    def local(frame, event, arg):
        if event == 'line':
            seq.append((frame.f_code.co_name, frame.f_lineno))
        return local

    def tracer(frame, event, arg):
        fnm = frame.f_code.co_filename
        if event == 'call' and os.path.realpath(fnm).startswith(rootp) and '/tests/' not in fnm:
            return local
        return None

    def body():
        sys.settrace(tracer)
        try:
            fn()
        finally:
            sys.settrace(None)
    t = threading.Thread(target=body)
    t.start()
    t.join()
    return seq
