"""Binding canaries: a recorded case with its observation corrupted must be
rejected by the specification.

Every conformance run takes a handful of the cases the real code just
produced and the specification just accepted, alters the *observed* part (a
decision flipped, a reported graph unreported, a request dropped, ...) and
hands the altered cases to the same TLC module.  A specification that is not
bound to the observation (a vacuous ``Conforms``, a field nobody reads, a
harness that stopped recording) accepts them - that is a machinery failure
(exit 2), never a verdict about the library.

``corrupt(case)`` returns ``None`` (no corruption applicable) or
``(altered_case, certain)``.  ``certain`` means the property statement
determines the altered field for this case, so the altered case *must* be
rejected; for the others (e.g. a decision flipped where the statement leaves
two outcomes open) only the rejection rate is recorded, and at least one of
all altered cases has to be rejected.
"""
import copy
import random

from harness import tlc

_DONE = set()


def probe(ctx, family, cases, corrupt, judge_idx, k=16, once=True):
    """``judge_idx(list of cases) -> set of 0-based indexes rejected``."""
    if once and family in _DONE:
        return
    rng = random.Random(ctx.seed * 7919 + len(cases))
    pool = list(cases)
    rng.shuffle(pool)
    sure, unsure = [], []
    for c in pool[:600]:
        if len(sure) >= k:
            break
        r = corrupt(copy.deepcopy(c), rng)
        if r is None:
            continue
        (sure if r[1] else unsure).append(r[0])
    # half of the sample from the cases the statement determines, the rest from the others
    take_sure = sure[:max(k // 2, k - len(unsure))]
    take_unsure = unsure[:k - len(take_sure)]
    altered = take_sure + take_unsure
    certain = [True] * len(take_sure) + [False] * len(take_unsure)
    if not altered:
        return
    _DONE.add(family)
    try:
        rej = judge_idx(altered)
    except tlc.TLCError as ex:
        ctx.cover.setdefault('canary_failures', []).append('binding canary (%s): TLC failed on the altered cases: %s' % (family, str(ex)[:1500]))
        return
    stat = {'altered': len(altered), 'rejected': len(rej), 'must_reject': sum(certain),
            'must_reject_rejected': sum(1 for i, ce in enumerate(certain) if ce and i in rej)}
    ctx.cover.setdefault('binding_canaries', {})[family] = stat
    missed = [i for i, ce in enumerate(certain) if ce and i not in rej]
    # a failed canary never pre-empts a verdict: it is reported by the runner (exit 2) only when the
    # check found no violation to report
    if missed:
        ctx.cover.setdefault('canary_failures', []).append(
            'binding canary (%s): the specification ACCEPTED an observation altered against the property: %s'
            % (family, _brief(altered[missed[0]])))
    elif not rej:
        ctx.cover.setdefault('canary_failures', []).append(
            'binding canary (%s): none of %d altered observations was rejected' % (family, len(altered)))


def _brief(c):
    s = repr(c)
    return s if len(s) < 1500 else s[:1500] + '...'


def by_cases(module, strip=lambda c: c, **kw):
    """judge_idx for the Conf_* modules reading a flat list of cases"""
    def judge_idx(cases):
        rejected, _ = tlc.judge_cases(module, [strip(c) for c in cases], **kw)
        return {i - 1 for i in rejected}
    return judge_idx


class NullCtx:
    """stands in for the check's Ctx so that canary runs are not counted as coverage"""

    def __init__(self):
        self.traces = 0
        self.cover = {}
        self.notes = []

    def note(self, s):
        self.notes.append(s)


def toggle(lst, item):
    """list-as-set with ``item`` toggled"""
    if item in lst:
        return [x for x in lst if x != item]
    return list(lst) + [item]
