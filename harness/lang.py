"""gamma / alpha for the rule language.

gamma: abstract token sequences (the integer codes of spec/PolicyParser.tla)
       -> rule text, with seeded lexical variants.
alpha: printed rule text -> token sequence, by an independent splitter (the
       documented lexical rule: blank-separated words, leading '(' and
       trailing ')' peeled, keywords case-insensitive).  oslo.policy's own
       tokenizer is never used to interpret anything for the specification.
"""
import itertools

LP, RP, AND, OR, NOT, STR, TRUE_TOK, FALSE_TOK, BAD_TOK = range(9)
LEAF0 = 10
KW = {AND: 'and', OR: 'or', NOT: 'not'}
WS_BASIC = [' ', '  ', '\t', '\n', ' \n ', '\r\n', '\f', '\v']
WS_WIDE = WS_BASIC + [' ', ' ', '  ']


# colon-less words: checks that are not kind:match (behave as '!'); some carry quote characters at one
# edge (a quoted string needs the same quote at BOTH ends of the word) or are made of the constant signs
# (a parenthesis that is not at the outer edge of a word belongs to the word: '@(' and ')@' are colon-less words)
BAD_WORDS = ['@(', '!(', 'x(', ')@', ')!', ')x', 'a(b', 'a)b', 'foobar', 'role', 'r1', 'nocolon', '%(x)s', '100%', '50%_quota', '%', 'a%b', '%s', '%(unclosed', "'a", "b'", '"q', 'x"', "'", '"', "'a'b", '!@', '@!', '@@', '!!']
QUOTEY = ["'a", "b'", '"q', 'x"', "'", '"', "'a'b", "c'd"]


def leaf_text(i):
    return 'role:r%d' % i


def leaf_roles(asg):
    return ['r%d' % i for i in sorted(asg)]


def _case_variant(word, rng):
    m = rng.randrange(4)
    if m == 0:
        return word
    if m == 1:
        return word.upper()
    if m == 2:
        return word.capitalize()
    return ''.join(ch.upper() if rng.random() < 0.5 else ch for ch in word)


def core_text(tok, rng=None, leaf=leaf_text):
    if tok in KW:
        return _case_variant(KW[tok], rng) if rng else KW[tok]
    if tok == STR:
        q = rng.choice(['"', "'"]) if rng else "'"
        return q + (rng.choice(['abc', 'role:r1', 'and', 'x_y', '', '', '@', '(', ')', 'a)', "it's" if q == '"' else 'say"so']) if rng else 'abc') + q
    if tok == TRUE_TOK:
        return '@'
    if tok == FALSE_TOK:
        return '!'
    if tok == BAD_TOK:
        return rng.choice(BAD_WORDS) if rng else 'foobar'
    return leaf(tok - LEAF0)


def render(toks, rng=None, leaf=leaf_text, wide=False, glue_p=0.5):
    """Token sequence -> text.  With ``rng`` None the canonical single-space
    rendering; otherwise random keyword case, blank runs and parentheses
    glued to the neighbouring word (a word is ``(* core? )*``)."""
    if rng is None:
        return ' '.join('(' if t == LP else ')' if t == RP else core_text(t, None, leaf) for t in toks)
    words = []
    cur = ''          # word under construction
    state = 0         # 0: only '(' so far / empty, 1: core placed, 2: ')' placed
    for t in toks:
        if t == LP:
            if cur and state == 0 and rng.random() < glue_p:
                cur += '('
            else:
                if cur:
                    words.append(cur)
                cur, state = '(', 0
        elif t == RP:
            if cur and rng.random() < glue_p:
                cur += ')'
                state = 2
            else:
                if cur:
                    words.append(cur)
                cur, state = ')', 2
        else:
            txt = core_text(t, rng, leaf)
            if cur and state == 0 and rng.random() < glue_p:
                cur += txt
                state = 1
            else:
                if cur:
                    words.append(cur)
                cur, state = txt, 1
    if cur:
        words.append(cur)
    ws = WS_WIDE if wide else WS_BASIC
    out = rng.choice(['', ' ', '\n', '\t ']) if rng.random() < 0.3 else ''
    for k, w in enumerate(words):
        if k:
            out += rng.choice(ws)
        out += w
    if rng.random() < 0.3:
        out += rng.choice([' ', '\n', '\t'])
    return out


def split_words(text):
    """The documented lexical rule, implemented independently."""
    toks = []
    for word in text.split():
        n_open = 0
        while n_open < len(word) and word[n_open] == '(':
            n_open += 1
        rest = word[n_open:]
        toks.extend(['('] * n_open)
        if not rest:
            continue
        n_close = 0
        while n_close < len(rest) and rest[len(rest) - 1 - n_close] == ')':
            n_close += 1
        core = rest[:len(rest) - n_close]
        if core:
            if len(core) >= 2 and core[0] == core[-1] and core[0] in '\'"':
                toks.append(('STR', core))
            else:
                toks.append(core)
        toks.extend([')'] * n_close)
    return toks


def classify(words, leaf_of=None):
    """Words -> token codes.  ``leaf_of`` maps a check text to a leaf number
    (default: role:r<N>); unknown ``kind:match`` words raise ValueError, a
    word without colon is BAD_TOK."""
    out = []
    for w in words:
        if isinstance(w, tuple):
            out.append(STR)
        elif w == '(':
            out.append(LP)
        elif w == ')':
            out.append(RP)
        elif w.lower() in ('and', 'or', 'not'):
            out.append({'and': AND, 'or': OR, 'not': NOT}[w.lower()])
        elif w == '@':
            out.append(TRUE_TOK)
        elif w == '!':
            out.append(FALSE_TOK)
        elif ':' not in w:
            out.append(BAD_TOK)
        else:
            n = (leaf_of(w) if leaf_of else None)
            if n is None:
                n = _role_leaf(w)
            if n is None:
                raise ValueError('unclassifiable word %r' % (w,))
            out.append(LEAF0 + n)
    return out


def _role_leaf(w):
    if w.startswith('role:r') and w[6:].isdigit():
        return int(w[6:])
    return None


ROLE_LEAF = _role_leaf


def alpha(text, leaf_of=None):
    return classify(split_words(text), leaf_of)


def leaves_of(toks):
    return sorted({t - LEAF0 for t in toks if t >= LEAF0})


def all_assignments(leaves):
    for r in range(len(leaves) + 1):
        for c in itertools.combinations(leaves, r):
            yield c


def table_of(check, leaves, enforcer=None, creds_of=None):
    """Decision table of a real check object: the assignments (tuples of
    leaf numbers) under which it allows.  Raises whatever the code raises."""
    rows = []
    for asg in all_assignments(leaves):
        creds = creds_of(asg) if creds_of else {'roles': leaf_roles(asg)}
        if check({}, creds, enforcer):
            rows.append(list(asg))
    return rows


# ---------------------------------------------------------------------------
# generators of abstract inputs


def all_token_seqs(maxlen, symbols=(LP, RP, AND, OR, NOT, LEAF0)):
    """Every sequence over ``symbols`` of length 1..maxlen; each occurrence
    of LEAF0 becomes its own leaf, numbered by position (as MC_Parser)."""
    for n in range(1, maxlen + 1):
        for s in itertools.product(symbols, repeat=n):
            yield [LEAF0 + i + 1 if t == LEAF0 else t for i, t in enumerate(s)]


def random_tree(rng, size, nleaves, consts=True):
    """Random abstract tree: ('leaf', i) | ('T',) | ('F',) | ('not', t) |
    ('and', [..]) | ('or', [..])."""
    if size <= 1:
        r = rng.random()
        if consts and r < 0.08:
            return ('T',)
        if consts and r < 0.16:
            return ('F',)
        return ('leaf', rng.randrange(1, nleaves + 1))
    r = rng.random()
    if r < 0.2:
        return ('not', random_tree(rng, size - 1, nleaves, consts))
    n = rng.choice([2, 2, 2, 3, 3, 4])
    n = min(n, size)
    parts = _split(rng, size - 1, n)
    kids = [random_tree(rng, p, nleaves, consts) for p in parts]
    return ('and' if r < 0.6 else 'or', kids)


def _split(rng, total, n):
    total = max(total, n)
    cuts = sorted(rng.sample(range(1, total), n - 1)) if total > n else list(range(1, n))
    parts = []
    prev = 0
    for c in cuts + [total]:
        parts.append(max(1, c - prev))
        prev = c
    return parts


def repeated_group_tokens(rng, nleaves=4):
    """An expression in which one parenthesised group occurs several times, textually identical
    (operators that build a tree incrementally must not let one occurrence change another)."""
    g = random_tree(rng, rng.choice([2, 3, 3, 4]), nleaves, consts=False)
    while g[0] not in ('and', 'or'):
        g = random_tree(rng, rng.choice([2, 3, 3, 4]), nleaves, consts=False)
    gt = [LP] + tree_tokens(g, None) + [RP]
    marker = LEAF0 + nleaves + 1
    for _ in range(50):
        t = random_tree(rng, rng.choice([3, 4, 5, 6, 8]), nleaves + 1, consts=False)
        toks = tree_tokens(t, None)
        if toks.count(marker) >= 2:
            break
    else:
        toks = [marker, OR, marker, AND, LEAF0 + 1]
    out = []
    for x in toks:
        out.extend(gt if x == marker else [x])
    return out


PREC = {'or': 1, 'and': 2, 'not': 3}


def tree_tokens(t, rng=None, parent=0, extra_paren_p=0.15):
    """Precedence-aware printer of an abstract tree into tokens: parentheses
    only where the documented precedence needs them, plus (with rng) random
    redundant grouping."""
    k = t[0]
    if k == 'leaf':
        out = [LEAF0 + t[1]]
    elif k == 'T':
        out = [TRUE_TOK]
    elif k == 'F':
        out = [FALSE_TOK]
    elif k == 'not':
        out = [NOT] + tree_tokens(t[1], rng, PREC['not'], extra_paren_p)
    else:
        op = AND if k == 'and' else OR
        out = []
        for i, c in enumerate(t[1]):
            if i:
                out.append(op)
            # a same-operator child needs no parentheses semantically, but
            # grouping is kept to preserve the tree shape when it is nested
            sub = tree_tokens(c, rng, PREC[k], extra_paren_p)
            if c[0] == k:
                sub = [LP] + sub + [RP]
            out += sub
        if PREC[k] < parent or (k in ('and', 'or') and parent == PREC['not']):
            out = [LP] + out + [RP]
            return out
    if rng is not None and rng.random() < extra_paren_p:
        out = [LP] + out + [RP]
    return out


def tree_eval(t, asg):
    k = t[0]
    if k == 'leaf':
        return t[1] in asg
    if k == 'T':
        return True
    if k == 'F':
        return False
    if k == 'not':
        return not tree_eval(t[1], asg)
    if k == 'and':
        return all(tree_eval(c, asg) for c in t[1])
    return any(tree_eval(c, asg) for c in t[1])


def corrupt(toks, rng):
    """One random edit of a token sequence (C02 corruptions)."""
    toks = list(toks)
    op = rng.randrange(5)
    pool = [LP, RP, AND, OR, NOT, STR, BAD_TOK, LEAF0 + 1, LEAF0 + 2, TRUE_TOK, FALSE_TOK]
    if op == 0 and toks:
        del toks[rng.randrange(len(toks))]
    elif op == 1:
        toks.insert(rng.randrange(len(toks) + 1), rng.choice(pool))
    elif op == 2 and toks:
        toks[rng.randrange(len(toks))] = rng.choice(pool)
    elif op == 3:
        toks.insert(rng.randrange(len(toks) + 1), rng.choice([LP, RP]))
    else:
        if len(toks) >= 2:
            i = rng.randrange(len(toks) - 1)
            toks[i], toks[i + 1] = toks[i + 1], toks[i]
    return toks


def install_http_stub():
    """Replace requests.post (the library's only way out) by a local function: the 'server' decodes the
    target it was sent and replies True iff the target holds h<i> = 'v' for the leaf number i at the end
    of the URL.  Nothing leaves the process."""
    import json as _json
    import requests

    class _Reply:
        def __init__(self, text):
            self.text = text

        def close(self):
            pass

    def post(url, data=None, json=None, **kw):
        try:
            i = int(str(url).rstrip('/').rsplit('/', 1)[1])
            tgt = json['target'] if json is not None else _json.loads(data['target'])
            return _Reply('True' if tgt.get('h%d' % i) == 'v' else 'False')
        except Exception as ex:      # a malformed URL / payload: the server says no
            return _Reply('bad request: %s' % ex)
    requests.post = post


class LeafEnv:
    """A realisation of abstract leaves 1..n as concrete built-in checks whose
    truth is controlled by (target, creds).  ``kinds[i % len(kinds)]`` picks
    the check kind of leaf i:

      role     role:r<i>                     true iff r<i> in creds.roles
      generic  k<i>:%(t<i>)s                 creds.k<i> = 'v'; target.t<i> = 'v' iff true
      literal  'lit<i>':%(t<i>)s             target.t<i> = 'lit<i>' iff true
      bool     True:%(b<i>)s                 target.b<i> = True iff true
      rule     rule:n<i>                     rule n<i> is defined as role:r<i>
      path     a<i>.b.c:v                    creds.a<i> = {'b': [{'c': 'v'}]} iff true
    """
    ALL = ('role', 'generic', 'literal', 'bool', 'rule', 'path')
    # with the remote checks (the caller installs harness.lang.install_http_stub): the stub server replies
    # True iff the target it is sent holds h<i> = 'v'
    WITH_HTTP = ALL + ('http', 'https')
    # further kinds: a role name that itself contains a colon; a custom check class (harness.ev.install_probes)
    # that accepts with a truthy value which is not True and rejects with a falsy one which is not False
    EXTRA = ('colon', 'probe')

    def __init__(self, kinds=('role',), offset=0, upper=False):
        self.kinds = tuple(kinds)
        self.offset = offset
        self._back = {}
        # ``upper``: the same leaves spelled with upper-case attribute / rule / key names - DIFFERENT checks
        # (everything but role names and keywords is case-sensitive), controlled by their own keys
        self.upper = upper

    def _c(self, s):
        return s.upper() if self.upper else s

    def kind(self, i):
        return self.kinds[(i + self.offset) % len(self.kinds)]

    def text(self, i):
        k = self.kind(i)
        t = {'role': 'role:r%d', 'generic': 'k%d:%%(t%d)s', 'literal': "'lit%d':%%(t%d)s", 'bool': 'True:%%(b%d)s',
             'rule': 'rule:n%d', 'path': 'a%d.b.c:v', 'http': 'http://policy.invalid/leaf/%d', 'https': 'https://policy.invalid/leaf/%d',
             'colon': 'role:svc:team:r%d', 'probe': 'p4:f%d#%d'}[k]
        if self.upper and k not in ('http', 'https', 'colon', 'probe'):
            t = {'role': 'role:R%d', 'generic': 'K%d:%%(T%d)s', 'literal': "'LIT%d':%%(T%d)s", 'bool': 'True:%%(B%d)s',
                 'rule': 'rule:N%d', 'path': 'A%d.B.C:v'}[k]
        t = t % ((i, i) if t.count('%d') == 2 else (i,))
        self._back[t] = i
        return t

    def leaf_of(self, word):
        if word in self._back:
            return self._back[word]
        # printed form of a literal lhs keeps its quotes; nothing else changes
        return None

    def rules(self, leaves):
        """extra rule definitions needed by rule: leaves"""
        return {self._c('n%d' % i): 'role:r%d' % i for i in leaves if self.kind(i) == 'rule'}

    def env(self, asg, leaves):
        target, creds = {}, {'roles': []}
        for i in leaves:
            k = self.kind(i)
            on = i in asg
            if k in ('role', 'rule'):
                if on:
                    creds['roles'].append('r%d' % i)
            elif k == 'colon':
                if on:
                    creds['roles'].append('svc:team:r%d' % i)
            elif k == 'probe':
                if on:
                    creds.setdefault('f', []).append('f%d' % i)
            elif k == 'generic':
                creds[self._c('k%d' % i)] = 'v'
                target[self._c('t%d' % i)] = 'v' if on else 'w'
            elif k == 'literal':
                target[self._c('t%d' % i)] = (self._c('lit%d' % i)) if on else 'other'
            elif k in ('http', 'https'):
                target['h%d' % i] = 'v' if on else 'w'
            elif k == 'bool':
                target[self._c('b%d' % i)] = bool(on)
            elif k == 'path':
                creds[self._c('a%d' % i)] = {self._c('b'): [{self._c('c'): 'x'}, {self._c('c'): 'v'}]} if on else {self._c('b'): [{self._c('c'): 'x'}]}
        return target, creds
