#!/venv/bin/python
"""Beyond the listed properties: constructor / registration contracts of
RuleDefault, DocumentedRuleDefault, Enforcer.register_default - the complete
argument-shape table run against the real classes and judged by
spec/Conf_Register.tla.  Exit 0 held, 1 mismatch, 2 machinery."""
import itertools
import os
import sys

sys.path.insert(0, os.path.dirname(os.path.dirname(os.path.abspath(__file__))))
from harness import core, tlc  # noqa: E402


def main():
    core.use_repo()
    from oslo_policy import policy
    from harness import ev
    cases = []
    for dep, removal, reason, since, scope, documented, desc, ops, dupname in itertools.product(
            ('none', 'ok', 'wrongtype'), (0, 1), ('none', 'text'), ('none', 'text'),
            ('none', 'empty', 'ok', 'notlist', 'nonstr', 'dup'), (0, 1), ('none', 'empty', 'text'),
            ('notlist', 'empty', 'ok', 'nopath', 'nomethod', 'three'), (0, 1)):
        if not documented and (desc != 'text' or ops != 'ok'):
            continue
        kw = {}
        if dep == 'ok':
            kw['deprecated_rule'] = policy.DeprecatedRule('old', 'role:o', deprecated_reason='r', deprecated_since='s')
        elif dep == 'wrongtype':
            kw['deprecated_rule'] = {'name': 'old'}
        kw['deprecated_for_removal'] = bool(removal)
        kw['deprecated_reason'] = None if reason == 'none' else 'because'
        kw['deprecated_since'] = None if since == 'none' else 'N'
        kw['scope_types'] = {'none': None, 'empty': [], 'ok': ['system', 'project'], 'notlist': 'system', 'nonstr': ['system', 5],
                             'dup': ['system', 'system']}[scope]
        d = {'none': None, 'empty': '', 'text': 'what it does'}[desc]
        o = {'notlist': 'GET /x', 'empty': [], 'ok': [{'path': '/x', 'method': 'GET'}], 'nopath': [{'method': 'GET'}],
             'nomethod': [{'path': '/x'}], 'three': [{'path': '/x', 'method': 'GET', 'extra': 1}]}[ops]
        outcome = 'ok'
        try:
            if documented:
                rd = policy.DocumentedRuleDefault('p:x', 'role:a', d, o, **kw)
            else:
                rd = policy.RuleDefault('p:x', 'role:a', description=d, **kw)
            e = ev.make_enforcer({}, ('opt', None))
            if dupname:
                e.register_default(policy.RuleDefault('p:x', '@'))
            e.register_default(rd)
        except Exception as ex:
            outcome = type(ex).__name__
        cases.append({'dep': dep, 'removal': removal, 'reason': reason, 'since': since, 'scope': scope, 'documented': documented,
                      'desc': desc, 'ops': ops, 'dupname': dupname, 'outcome': outcome})
    bad, st = tlc.judge_cases('Conf_Register', cases)
    for i in bad[:20]:
        print('MISMATCH', cases[i - 1])
    print('register contracts: %d rows, %d mismatches' % (len(cases), len(bad)))
    return 1 if bad else 0


if __name__ == '__main__':
    try:
        sys.exit(main())
    except Exception:
        import traceback
        traceback.print_exc()
        sys.exit(2)
