"""Negative controls (specification mutants): for each headline invariant a
definition override replaces one operator of the specification by a broken
variant (spec/Neg_*.tla); TLC has to find a counterexample for the named
invariant.  An invariant that survives its mutant would be vacuous on the
bounded model - that is a machinery failure (exit 2), not a verdict about the
library.

  python checks/negctl.py            all controls
  negctl.run_for(ctx, 'C03')         the controls of one property (called from
                                     the thorough tier of the checks)
"""
import os
import sys

sys.path.insert(0, os.path.dirname(os.path.dirname(os.path.abspath(__file__))))

from harness import tlc  # noqa: E402


def _controls():
    from checks import c01, c03, c04, c08, c10, c11, c16
    loader = c10.MC_CFG % (3, 'FALSE', 'renamed', 'TRUE')
    loader_all = c11.MC_ALL % ('FALSE', 'renamed')
    loader_all_en = c11.MC_ALL % ('TRUE', 'renamed')
    return [
        # (properties, name, module, cfg, override, invariants of which at least one must be violated)
        (('C01', 'C15'), 'parser: and never binds tighter than a preceding or', 'Neg_Parser', c01.MC_CFG % (5, 0),
         'CanMixOrAnd <- M_NeverMix', ['ParserSound']),
        (('C03',), 'default rule shadows a defined name', 'Neg_Default', c03.MC_CFG % 0,
         'Lookup <- M_LookupDefaultShadows', ['InvDefinedNeverDefault', 'InvDefaultTable']),
        (('C03', 'C02'), 'unknown name without usable default is allowed', 'Neg_Default', c03.MC_CFG % 0,
         'Lookup <- M_LookupFailOpen', ['InvDefaultTable']),
        (('C04',), 'role comparison without case folding', 'Neg_Leaves', c04.MC_CFG % 2,
         'LowerText <- M_NoFold', ['RoleFoldsBothSides']),
        (('C08',), 'domain scope takes precedence over system scope', 'Neg_Scope', c08.MC_CFG,
         'TokenScope <- M_TokenScope', ['InvTokenPrecedence', 'InvScopeTable']),
        (('C16',), 'reply quotes stripped on the left only', 'Neg_Http', c16.MC_CFG % 5,
         'HttpBodyAllows <- M_BodyLeftOnly', ['InvReplyRule', 'InvOnlyTrueAllows']),
        (('C16',), 'reply "true" accepted', 'Neg_Http', c16.MC_CFG % 4,
         'HttpBodyAllows <- M_BodyLower', ['InvReplyRule', 'InvOnlyTrueAllows']),
        (('C10', 'C12'), 'directory changes are never noticed', 'Neg_Loader', loader,
         'DirsUpdated <- M_DirsNeverUpdated', ['LongLivedEqualsFresh', 'LongLivedExact']),
        (('C12',), 'directory changes are never noticed (idempotence)', 'Neg_Loader', loader,
         'DirsUpdated <- M_DirsNeverUpdated', ['Idempotent']),
        (('C11', 'C09'), 'alias exception of the deprecation table dropped', 'Neg_Loader', loader_all,
         'HandleDeprecated <- M_HandleDeprecatedNoAliasException', ['FreshIsLayered', 'FreshExact']),
        (('C11',), 'old default OR-ed although enforce_new_defaults is on', 'Neg_Loader', loader_all_en,
         'HandleDeprecated <- M_HandleDeprecatedAlwaysOr', ['FreshIsLayered', 'FreshExact']),
    ]


def run_for(ctx, pid):
    """run the controls that belong to property ``pid``; record them in the evidence; a control that
    is NOT violated is a machinery failure"""
    out = []
    for props, name, module, cfg, override, expect in _controls():
        if pid is not None and pid not in props:
            continue
        # one TLC run per expected invariant/property (TLC reports only the first violated invariant of a state)
        got, states = [], 0
        base = '\n'.join(ln for ln in cfg.split('\n') if not ln.startswith(('INVARIANT', 'PROPERTY')))
        for inv in expect:
            res = tlc.run(module, base + '\n%s %s\nCONSTANT %s\n' % ('PROPERTY' if inv == 'Idempotent' else 'INVARIANT', inv, override), timeout=3000)
            states = max(states, res.distinct)
            if any(v['name'] == inv for v in res.violations):
                got.append(inv)
        ok = got == list(expect)
        out.append({'control': name, 'module': module, 'override': override, 'must_violate': expect, 'violated': got,
                    'states': states, 'killed': ok})
        if ctx is not None:
            ctx.cover.setdefault('negative_controls', []).append(out[-1])
            if not ok:
                ctx.cover.setdefault('canary_failures', []).append(
                    'negative control "%s" (%s with %s) did not violate all of %s: an invariant is vacuous' % (name, module, override, expect))
    return out


if __name__ == '__main__':
    bad = 0
    for r in run_for(None, sys.argv[1] if len(sys.argv) > 1 else None):
        print('%-6s %-70s %s' % ('killed' if r['killed'] else 'ALIVE', r['control'], r['violated']))
        bad += 0 if r['killed'] else 1
    sys.exit(2 if bad else 0)
