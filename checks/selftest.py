#!/venv/bin/python
"""Binding demonstration: run every kept seeded change (seeded/<id>/patch.diff)
against the check of the property it breaks (and optionally others), in a
scratch worktree of /repo, and record which checks detect it.

  selftest.py [--tier quick] [--only C10-1,C20-2] [--also C01,C02] [--jobs 3]

Exit 0 iff every seed is detected by the check of its own property.
Updates seeded/<id>/meta.json (detected_by) and seeded/RESULTS.md.
"""
import concurrent.futures
import json
import os
import subprocess
import sys

HERE = os.path.dirname(os.path.abspath(__file__))
ROOT = os.path.dirname(HERE)


def run_one(sid, pids, tier):
    patch = os.path.join(ROOT, 'seeded', sid, 'patch.diff')
    p = subprocess.run(['/venv/bin/python', os.path.join(HERE, 'mutant.py'), patch] + pids + ['--tier', tier],
                       stdout=subprocess.PIPE, stderr=subprocess.STDOUT)
    out = p.stdout.decode('utf-8', 'replace')
    res = {}
    for ln in out.splitlines():
        for st in ('DETECTED', 'MISSED', 'BROKEN'):
            if ln.startswith(st):
                res[ln.split()[1]] = ln.split()[0]
    keys = [ln.split('replay=')[1].split('/')[-1] for ln in out.splitlines() if 'VIOLATION' in ln]
    return sid, res, keys, out


def main():
    tier = 'quick'
    args = sys.argv[1:]
    only = None
    also = []
    jobs = 3
    if '--tier' in args:
        tier = args[args.index('--tier') + 1]
    if '--only' in args:
        only = args[args.index('--only') + 1].split(',')
    if '--also' in args:
        also = args[args.index('--also') + 1].split(',')
    if '--jobs' in args:
        jobs = int(args[args.index('--jobs') + 1])
    seeds = sorted(d for d in os.listdir(os.path.join(ROOT, 'seeded')) if os.path.isfile(os.path.join(ROOT, 'seeded', d, 'patch.diff')))
    if only:
        seeds = [s for s in seeds if s in only]
    rows = []
    ok = True
    with concurrent.futures.ThreadPoolExecutor(jobs) as ex:
        futs = []
        for sid in seeds:
            meta = json.load(open(os.path.join(ROOT, 'seeded', sid, 'meta.json')))
            pids = [meta['property']] + [a for a in also if a != meta['property']]
            futs.append(ex.submit(run_one, sid, pids, tier))
        for f in futs:
            sid, res, keys, out = f.result()
            mp = os.path.join(ROOT, 'seeded', sid, 'meta.json')
            meta = json.load(open(mp))
            det = sorted(k for k, v in res.items() if v == 'DETECTED')
            meta['detected_by'] = sorted(set(meta.get('detected_by', [])) | set('%s (%s)' % (d, tier) for d in det))
            meta['ran'] = 'checks/selftest.py: checks/mutant.py seeded/%s/patch.diff %s --tier %s -> %s' % (sid, ' '.join(res), tier, res)
            json.dump(meta, open(mp, 'w'), indent=1)
            own = res.get(meta['property'])
            print('%-8s %-5s %-10s %s' % (sid, meta['property'], own, ' '.join('%s=%s' % kv for kv in sorted(res.items()) if kv[0] != meta['property'])))
            if own != 'DETECTED':
                ok = False
                print(out[-1500:])
            rows.append((sid, meta['property'], own, meta.get('summary', '')[:150].replace('\n', ' '), ', '.join(keys[:3])))
    rp = os.path.join(ROOT, 'seeded', 'RESULTS.md')
    if only and os.path.exists(rp):
        # a partial run updates the rows of the seeds it ran and keeps the others
        done = {r[0] for r in rows}
        for ln in open(rp):
            cells = [c.strip() for c in ln.strip().strip('|').split(' | ')]
            if len(cells) == 5 and cells[0][:1] == 'C' and cells[0] not in done:
                rows.append(tuple(cells))

        def skey(r):
            a, b = r[0].split('-')
            return (a, int(b))
        rows.sort(key=skey)
    with open(rp, 'w') as f:
        f.write('# Seeded changes and the checks that catch them (tier %s)\n\n| seed | property | own check | change | violation keys |\n|---|---|---|---|---|\n' % tier)
        for r in rows:
            f.write('| %s | %s | %s | %s | %s |\n' % r)
        f.write('\nNot detected, on purpose (see DESIGN.md section 6): C02-17 (which definition governs a renamed policy is '
                'C11\'s subject - the same mutation is seed C18-17; the malformed override itself grants nothing), C07-5 (a target that contains itself - outside the generators\' finite '
                'values), C12-12 (differs from the original only after a content change that leaves every modification time unchanged), '
                'C12-16 (needs the constructor\'s rules= argument, not among the enforcer options C12 quantifies over), C15-10 (a race '
                'with the first entry-point scan of the process - C15 quantifies over expressions, not start-up schedules).\n')
    return 0 if ok else 1


if __name__ == '__main__':
    sys.exit(main())
