"""C20 - a decision taken during a reload sees the old or the new policy,
never a mix.

MC  : spec/MC_LoaderMT.tla - two threads run enforce (load steps at the
      granularity of each write to the shared rule store / file-rule record
      / caches, then look-up, then evaluation) around one edit of the files,
      in EVERY interleaving, for five scenarios.  With Locked = TRUE (one
      lock over the whole call) AtomicDecision and SettledCorrect hold; with
      Locked = FALSE - the code as it is, no lock, no copy-then-swap - TLC
      finds the counterexamples (design-level confirmation of the known
      findings, not an alarm).
C2S : systematic schedule enumeration on the real code, deterministic: the
      reloading call parks at each of its line boundaries inside the library
      while a second call runs to completion (A_parked), and a call started
      before the edit parks at each of its line boundaries while the files
      are edited and a second call reloads (B_parked).  Every schedule is a
      case for spec/Conf_LoaderMT.tla: TLC computes the old and the new
      policy from the loader specification and checks the decision (and the
      settled state).  Wrong decisions are keyed by scenario, shape and the
      *projected rule store at the park point* (not by line number), so that
      /verif/known_findings.json can list the windows of the unchanged tree
      and any other window is still reported.
"""
import os
import threading

from harness import core, fsbox, sched, tlc
from checks import loader_common as lc

SCENARIOS = ['main_edit_dir_override', 'dir_edit', 'defaults_permissive', 'deprecated', 'alias_eval', 'dir_edit_linked', 'merge_mode_dir_edit',
             'empty_main_dir_edit', 'defaults_override_removed', 'dir_two_files', 'deprecated_override_removed', 'dir_only_edit', 'deprecated_alias_old_defaults']
MERGE_MODE = {'merge_mode_dir_edit'}
OLD_DEFAULTS = {'deprecated_alias_old_defaults'}       # scenarios that run with enforce_new_defaults off


def cfg_for(sc, text):
    return text.replace('EnforceNew = TRUE', 'EnforceNew = FALSE') if sc in OLD_DEFAULTS else text
NAMES = ['n', 'm', 'o', 'u', 'default']
ROLES = ['a', 'b', 'd1r', 'd2r', 'dflt', 'old', 'nobody']

MC_CFG = """SPECIFICATION Spec
CONSTANTS
 Scenario = "%s"
 Locked = %s
 EnforceNew = TRUE
 Names <- MTNames
 MainFile = "main"
 Dirs <- MTDirs
 Loadable <- MTLoadable
 Ignored <- MTIgnored
 Defaults <- MTDefaults
 AllRoles <- MTRoles
 NameOrder <- MTOrder
 OverwriteMode = %s
INVARIANT AtomicDecision
INVARIANT SettledCorrect
CHECK_DEADLOCK FALSE
"""
CONF_CFG = MC_CFG.replace('SPECIFICATION Spec', 'SPECIFICATION CSpec').replace('INVARIANT AtomicDecision\nINVARIANT SettledCorrect\n', 'INVARIANT %s\n')


def R(*rs):
    return {'k': 'roles', 'r': list(rs)}


ALIAS_M = {'k': 'alias', 'n': 'm'}
ALIAS_O = {'k': 'alias', 'n': 'o'}
ALIAS_N = {'k': 'alias', 'n': 'n'}
ANY = {'k': 'any'}


def scenario_files(sc):
    """(old files, new files) as {file: {name: body}}; mirrors FsOld/FsNew of MC_LoaderMT"""
    if sc == 'main_edit_dir_override':
        old = {'main': {'n': R('a'), 'm': R('a')}, 'd1/a': {'n': R('d1r')}}
        return old, {'main': {'n': R('b'), 'm': R('a')}}
    if sc == 'dir_edit':
        old = {'main': {'n': R('a'), 'm': R('a')}, 'd1/a': {'n': R('d1r')}}
        return old, {'d1/a': {'n': R('d2r')}}
    if sc == 'defaults_permissive':
        return {'main': {'default': ANY, 'm': R('a')}}, {'main': {'default': ANY, 'm': R('b')}}
    if sc == 'deprecated':
        return {'main': {'o': R('a')}}, {'main': {'o': R('b')}}
    if sc == 'dir_edit_linked':
        return {'main': {'u': R('a')}, 'd1/a': {'n': ALIAS_M, 'm': R('a')}}, {'d1/a': {'m': R('b'), 'n': ALIAS_O, 'o': R('a')}}
    if sc == 'deprecated_override_removed':
        return {'main': {'o': R('a'), 'm': R('a')}}, {'main': {'m': R('b')}}
    if sc == 'deprecated_alias_old_defaults':
        # the file mentions the old name only as an alias of the new one (what the sample generator suggests);
        # enforce_new_defaults is off: the new name is decided by "new default or old default"
        return {'main': {'o': ALIAS_N, 'm': R('a')}}, {'main': {'o': ALIAS_N, 'm': R('b')}}
    if sc == 'dir_only_edit':
        return {'d1/a': {'n': R('d1r'), 'm': R('a')}}, {'d1/a': {'m': R('b')}}
    if sc == 'dir_two_files':
        return {'main': {'n': R('a'), 'm': R('a')}, 'd1/a': {'n': R('d1r')}, 'd1/b': {'m': R('b')}}, {'d1/b': {'m': R('d2r')}}
    if sc == 'defaults_override_removed':
        return {'main': {'default': ANY, 'n': R('a')}}, {'main': {'default': ANY}}
    if sc == 'empty_main_dir_edit':
        return {'main': {}, 'd1/a': {'n': R('d1r')}}, {'d1/a': {'n': R('d1r', 'd2r')}}
    if sc == 'merge_mode_dir_edit':
        return {'main': {'n': R('a'), 'm': R('a')}, 'd1/a': {'n': R('d1r')}}, {'d1/a': {'n': R('d2r')}}
    return {'main': {'n': ALIAS_M, 'm': R('a')}}, {'main': {'n': R('b'), 'm': R('d2r')}}


def defaults_for(sc):
    from oslo_policy import policy
    if sc == 'defaults_override_removed':
        # (marked deprecated for removal: the flag changes warnings, not decisions)
        return [policy.RuleDefault('n', 'role:dflt', deprecated_for_removal=True, deprecated_reason='r', deprecated_since='s')]
    if sc in ('defaults_permissive', 'empty_main_dir_edit', 'dir_only_edit'):
        return [policy.RuleDefault('n', 'role:dflt')]
    if sc in ('deprecated', 'deprecated_override_removed', 'deprecated_alias_old_defaults'):
        return [policy.RuleDefault('n', 'role:dflt', deprecated_rule=policy.DeprecatedRule('o', 'role:old', deprecated_reason='r', deprecated_since='s'))]
    return []


def body_text(b):
    if b['k'] == 'any':
        return '@'
    return fsbox.body_text(b)


class Env:
    """an enforcer settled on the old files"""

    def __init__(self, sc, rng):
        self.sc = sc
        self.box = fsbox.Box(rng)
        self.old, self.edit = scenario_files(sc)
        for f, c in self.old.items():
            self._write(f, c)
        # (the configured-but-absent optional directory comes FIRST in policy_dirs)
        self.e = lc.new_enforcer(self.box, 'plain', sc not in OLD_DEFAULTS, defaults=defaults_for(sc), overwrite=sc not in MERGE_MODE, absent_first=True)
        self.e.load_rules()

    def _write(self, f, c):
        import json
        self.box.clock += 1
        p = self.box.path(f)
        existed = os.path.exists(p)
        with open(p, 'w') as fh:
            fh.write(json.dumps({n: body_text(c[n]) for n in sorted(c)}))
        t = fsbox.BASE + self.box.clock
        os.utime(p, (t, t))
        d = f.split('/')[0] if '/' in f else None
        if d and not existed:
            self.box.dir_mtime[d] = self.box.clock
        self.box._stamp_dirs()

    def do_edit(self):
        for f, c in self.edit.items():
            self._write(f, c)

    def project(self):
        """abstract projection of the shared rule store"""
        def absb(chk):
            s = str(chk)
            if s == '@':
                return ANY
            if s.startswith('rule:'):
                return {'k': 'alias', 'n': s[5:]}
            if s == '!':
                return R()
            roles = [w[5:] for w in s.replace('(', ' ').replace(')', ' ').split() if w.startswith('role:')]
            return R(*sorted(roles))
        rules = [[n, absb(c)] for n, c in list(self.e.rules.items()) if n in NAMES]
        # the record of file-provided rules is internal: when a refactoring moved it away the
        # projection goes without it (it only feeds the MODEL-DRIFT note and the window label)
        fr = []
        try:
            fr = [[n, absb(getattr(rd, 'check', rd))] for n, rd in list(getattr(self.e, 'file_rules', {}).items()) if n in NAMES]
        except Exception:
            fr = []
        return rules, fr

    def extra(self):
        """aspects of the shared store beyond its contents that a decision depends on"""
        x = []
        if getattr(self.e.rules, 'default_rule', None) != self.e.default_rule:
            x.append('store.default_rule=%r' % (getattr(self.e.rules, 'default_rule', None),))
        return ','.join(x)

    def final(self):
        out = {}
        for n in NAMES:
            chk = self.e.rules.get(n)
            out[n] = [r for r in ROLES if self.e.enforce(n, {}, {'roles': [r]})]
        return out

    def close(self):
        self.box.close()


def fmt_state(rules, fr, extra=''):
    def one(p):
        return ','.join('%s=%s' % (n, b['k'] if b['k'] != 'roles' else '+'.join(b['r']) or '!') for n, b in sorted(p))
    return 'rules{%s}|file_rules{%s}' % (one(rules), one(fr)) + (('|' + extra) if extra else '')


def schedule_A_parked(sc, rng, k, q, role):
    """edit; call A (reloads) parks at line k; call B decides; A resumes"""
    env = Env(sc, rng)
    case = {'shape': 'A_parked', 'q': q, 'role': role, 'allow': 0, 'crashed': 0, 'rules': [], 'frules': [], 'final': {n: [] for n in NAMES},
            'roles': ROLES, 'check_final': 1, '_k': k}
    try:
        env.do_edit()
        a_role = 'nobody'

        def at_park(p):
            case['rules'], case['frules'] = env.project()
            case['_extra'] = env.extra()
            done, holder, t = sched.run_in_thread(lambda: env.e.enforce(q, {}, {'roles': [role]}), 1.5)
            return done, holder, t
        out = sched.run_parked(core.REPO, k, lambda: env.e.enforce(q, {}, {'roles': [a_role]}), at_park)
        if not out['parked']:
            return None
        done, holder, t = out['mid']
        t.join()
        case['_where'] = out['where']
        case['_b_blocked'] = not done
        if 'exc' in holder or out['first_exc']:
            case['crashed'] = 1
            case['_exc'] = holder.get('exc') or out['first_exc']
        else:
            case['allow'] = 1 if holder['result'] else 0
        case['final'] = env.final()
    finally:
        env.close()
    return case


def schedule_B_parked(sc, rng, j, q, role):
    """call B (started on the old files) parks at line j; edit; call A reloads
    and decides; B resumes and decides"""
    env = Env(sc, rng)
    case = {'shape': 'B_parked', 'q': q, 'role': role, 'allow': 0, 'crashed': 0, 'rules': [], 'frules': [], 'final': {n: [] for n in NAMES},
            'roles': ROLES, 'check_final': 1, '_k': j}
    try:
        def at_park(p):
            env.do_edit()
            done, holder, t = sched.run_in_thread(lambda: env.e.enforce(q, {}, {'roles': ['nobody']}), 1.5)
            case['rules'], case['frules'] = env.project()
            return done, holder, t
        out = sched.run_parked(core.REPO, j, lambda: env.e.enforce(q, {}, {'roles': [role]}), at_park)
        if not out['parked']:
            return None
        done, holder, t = out['mid']
        t.join()
        case['_where'] = out['where']
        if 'exc' in holder or out['first_exc']:
            case['crashed'] = 1
            case['_exc'] = holder.get('exc') or out['first_exc']
        else:
            case['allow'] = 1 if out['first'] else 0
        case['final'] = env.final()
    finally:
        env.close()
    return case


def phase_points(sc, rng):
    """line events of a settled call at which it has (1) finished its own load
    step, (2) fetched the check object; found from the shape of the call (the
    last event inside load_rules' dynamic extent / the first event of the
    evaluation helper), with quartile fall-backs when the code is refactored"""
    env = Env(sc, rng)
    try:
        prof = sched.line_profile(core.REPO, lambda: env.e.enforce('n', {}, {'roles': ['nobody']}))
    finally:
        env.close()
    n = len(prof)
    pts = {}
    depth_names = [f for f, _ in prof]
    # first event back in the top-level function after the first nested excursion that contains 'load' in a function name
    top = depth_names[0] if depth_names else ''
    last_load = max([i for i, f in enumerate(depth_names) if 'load' in f or 'director' in f or 'deprecat' in f or 'check_rules' in f or 'cycle' in f or 'undefined' in f] or [n // 2])
    after_load = next((i for i in range(last_load + 1, n) if depth_names[i] == top), n // 2)
    pts['after_own_load'] = after_load + 1
    ev_i = next((i for i in range(after_load, n) if depth_names[i] == '_check'), None)
    pts['after_lookup'] = (ev_i + 1) if ev_i is not None else min(n, after_load + (n - after_load) * 3 // 4 + 1)
    return pts, n


def schedule_BA_parked(sc, rng, j, k, q, role, phase):
    """B (started on the old files) parks at line j; edit; A starts reloading and
    parks at line k; B resumes and decides; A resumes"""
    env = Env(sc, rng)
    case = {'shape': 'BA_parked:' + phase, 'q': q, 'role': role, 'allow': 0, 'crashed': 0, 'rules': [], 'frules': [], 'final': {n: [] for n in NAMES},
            'roles': ROLES, 'check_final': 1, '_k': k, '_j': j}
    try:
        b = sched.TracedCall(core.REPO, j, lambda: env.e.enforce(q, {}, {'roles': [role]}))
        if not b.start_and_wait():
            b.join()
            return None
        env.do_edit()
        a = sched.TracedCall(core.REPO, k, lambda: env.e.enforce(q, {}, {'roles': ['nobody']}))
        a_parked = a.start_and_wait()
        case['rules'], case['frules'] = env.project()
        case['_extra'] = env.extra()
        case['_where'] = a.p.where
        b.resume()
        finished = b.join(1.5)
        if a_parked:
            a.resume()
        a.join()
        b.join()
        if not a_parked:
            return None
        if b.exc or a.exc:
            case['crashed'] = 1
            case['_exc'] = b.exc or a.exc
        else:
            case['allow'] = 1 if b.result else 0
        case['_b_blocked'] = not finished
        case['final'] = env.final()
    finally:
        env.close()
    return case


def schedule_AB_parked(sc, rng, k, j, q, role):
    """edit; A (reloads, decides for ``role``) parks at line k; B (started after the edit as well) runs until
    its line j and parks there (or finishes); A resumes and decides; B resumes.  The decision of the call
    that was suspended FIRST is the one observed."""
    env = Env(sc, rng)
    case = {'shape': 'AB_parked', 'q': q, 'role': role, 'allow': 0, 'crashed': 0, 'rules': [], 'frules': [], 'final': {n: [] for n in NAMES},
            'roles': ROLES, 'check_final': 1, '_k': k, '_j': j}
    try:
        env.do_edit()
        a = sched.TracedCall(core.REPO, k, lambda: env.e.enforce(q, {}, {'roles': [role]}))
        if not a.start_and_wait():
            a.join()
            return None
        b = sched.TracedCall(core.REPO, j, lambda: env.e.enforce(q, {}, {'roles': ['nobody']}))
        b_parked = b.start_and_wait()
        case['rules'], case['frules'] = env.project()
        case['_extra'] = env.extra()
        case['_where'] = (a.p.where, b.p.where if b_parked else 'finished')
        a.resume()
        finished = a.join(1.5)
        if b_parked:
            b.resume()
        b.join()
        a.join()
        if b.exc or a.exc:
            case['crashed'] = 1
            case['_exc'] = a.exc or b.exc
        else:
            case['allow'] = 1 if a.result else 0
        case['_a_blocked'] = not finished
        case['final'] = env.final()
    finally:
        env.close()
    return case


def judge(sc, cases, invariant):
    import json
    import re
    import tempfile
    stripped = [{k: v for k, v in c.items() if not k.startswith('_')} for c in cases]
    fd, path = tempfile.mkstemp(prefix='verif_cases_', suffix='.json')
    try:
        with os.fdopen(fd, 'w') as f:
            json.dump(stripped, f)
        # AtomicOK is listed first: a case whose decision is wrong is reported under it, a case that only
        # leaves a wrong rule store behind under Conforms (TLC reports the first violated invariant of a state)
        # (NoDrift comes last: drift is only counted for cases whose verdict is fine)
        inv = 'AtomicOK\nINVARIANT Conforms\nINVARIANT NoDrift' if invariant == 'Conforms' else invariant
        res = tlc.run('Conf_LoaderMT', cfg_for(sc, CONF_CFG % (sc, 'FALSE', 'FALSE' if sc in MERGE_MODE else 'TRUE', inv)), env={'VERIF_CASES': path}, cont=True, timeout=3000)
    finally:
        os.unlink(path)
    bad = {}
    for v in res.violations:
        if v['name'] not in (invariant, 'AtomicOK', 'NoDrift'):
            raise tlc.TLCError('unexpected violation %s\n%s' % (v['name'], v['text'][:1500]))
        bad[int(re.findall(r'\bcid = (\d+)', v['text'])[-1])] = {'AtomicOK': 'decision', 'NoDrift': 'drift'}.get(v['name'], 'settled')
    if res.distinct < len(cases):
        raise tlc.TLCError('Conf_LoaderMT: %d states for %d cases' % (res.distinct, len(cases)))
    return bad if invariant == 'Conforms' else sorted(bad)


def run(ctx):
    q = ctx.quick
    rng = ctx.rng
    design = {}
    global SCENARIOS
    if os.environ.get('VERIF_C20_ONLY'):          # development aid: restrict to some scenarios
        SCENARIOS = [x for x in SCENARIOS if x in os.environ['VERIF_C20_ONLY'].split(',')]
    for sc in SCENARIOS:
        ow = 'FALSE' if sc in MERGE_MODE else 'TRUE'
        res = tlc.run('MC_LoaderMT', cfg_for(sc, MC_CFG % (sc, 'TRUE', ow)), timeout=3000)
        ctx.add_mc('MC_LoaderMT(%s,Locked)' % sc, res)          # the repaired design must satisfy C20
        res = tlc.run('MC_LoaderMT', cfg_for(sc, MC_CFG % (sc, 'FALSE', ow)), cont=True, timeout=3000)
        ctx.add_mc('MC_LoaderMT(%s,as-implemented)' % sc, res, must_hold=False)
        design[sc] = sorted({v['name'] for v in res.violations})
        ctx.note('design level, %s, code as implemented (no lock): TLC counterexamples for %s' % (sc, design[sc] or 'nothing'))
    ctx.cover['design_counterexamples_as_implemented'] = design
    n_sched = 0
    n_bad = 0
    drift = 0
    for sc in SCENARIOS:
        # how many line events does a reloading / a plain call have?
        env = Env(sc, rng)
        try:
            env.do_edit()
            na = sched.count_lines(core.REPO, lambda: env.e.enforce('n', {}, {'roles': ['nobody']}))
            nb = sched.count_lines(core.REPO, lambda: env.e.enforce('n', {}, {'roles': ['nobody']}))
        finally:
            env.close()
        old, edit = scenario_files(sc)
        asks = {'main_edit_dir_override': [('n', 'b'), ('n', 'd1r'), ('m', 'a')],
                'dir_edit': [('n', 'a'), ('n', 'd1r'), ('n', 'd2r'), ('m', 'a')],
                'defaults_permissive': [('n', 'nobody'), ('n', 'dflt'), ('u', 'nobody'), ('m', 'b')],
                'deprecated': [('n', 'a'), ('n', 'b'), ('n', 'dflt')],
                'alias_eval': [('n', 'a'), ('n', 'b'), ('n', 'd2r')],
                'dir_edit_linked': [('n', 'a'), ('n', 'b'), ('m', 'a')],
                'merge_mode_dir_edit': [('n', 'a'), ('n', 'd1r'), ('n', 'd2r')],
                'empty_main_dir_edit': [('n', 'd1r'), ('n', 'd2r'), ('n', 'dflt')],
                'defaults_override_removed': [('n', 'nobody'), ('n', 'a'), ('n', 'dflt'), ('u', 'nobody')],
                'dir_two_files': [('n', 'a'), ('n', 'd1r'), ('m', 'a'), ('m', 'b'), ('m', 'd2r')],
                'deprecated_override_removed': [('n', 'a'), ('n', 'dflt'), ('m', 'a'), ('m', 'b'), ('n', 'old')],
                'dir_only_edit': [('n', 'd1r'), ('n', 'dflt'), ('m', 'a'), ('m', 'b')],
                'deprecated_alias_old_defaults': [('n', 'old'), ('n', 'dflt'), ('n', 'nobody'), ('m', 'a'), ('m', 'b')]}[sc]
        # park points: in the quick tier those line events of the reloading call at which the shared
        # store (contents, file-rule record, default rule) has just changed - every distinct window is
        # visited once - plus a regular sample; in the thorough tier every line event
        change_points = []
        env = Env(sc, rng)
        try:
            env.do_edit()
            last = [None]

            def on_line(k):
                st = (fmt_state(*env.project()), env.extra(), bool(env.e.rules))
                if st != last[0]:
                    change_points.append(k)
                    last[0] = st
            sched.count_lines(core.REPO, lambda: env.e.enforce('n', {}, {'roles': ['nobody']}), on_line)
        finally:
            env.close()
        if q:
            ks = sorted(set(change_points) | {k + 1 for k in change_points} | set(range(1, na + 1, 40)))
            ks = [k for k in ks if 1 <= k <= na]
            js = sorted(set(range(1, nb + 1, 12)) | {1, 2, nb})
        else:
            ks = list(range(1, na + 1))
            js = list(range(1, nb + 1))
        ctx.cover.setdefault('state_change_points', {})[sc] = change_points
        cases = []
        for qn, role in asks:
            for k in ks:
                c = schedule_A_parked(sc, rng, k, qn, role)
                if c:
                    cases.append(c)
            for j in js:
                c = schedule_B_parked(sc, rng, j, qn, role)
                if c:
                    cases.append(c)
        # two switches with the reloader still unfinished: B parked after its own
        # load step / after its look-up, A parked at every line of its reload
        pts, _n = phase_points(sc, rng)
        for phase, j in sorted(pts.items()):
            for qn, role in asks:
                for k in (ks if not q else sorted(set(change_points) | {c_ + 1 for c_ in change_points})):
                    if k > na:
                        continue
                    c = schedule_BA_parked(sc, rng, j, k, qn, role, phase)
                    if c:
                        cases.append(c)
        # two reloaders: A parked inside its reload, B (which may start a reload of its own) parked inside
        # its call, A finishes on whatever B left - A's decision is observed
        # (A is parked only where its OWN reload has already changed the shared store: before that the
        #  schedule is the A_parked shape with the roles of the two calls exchanged)
        own = change_points[1:]
        cps = sorted(set(own) | {c_ + 1 for c_ in own})
        cps = [k for k in cps if 1 <= k <= na]
        for qn, role in (asks[:2] if q else asks):
            for k in (cps if not q else cps[::2]):
                for j in (cps if not q else cps[::3]):
                    c = schedule_AB_parked(sc, rng, k, j, qn, role)
                    if c:
                        cases.append(c)
        if sc.startswith('deprecated') and cps:
            # the merge of a deprecated default tests the file-rule record and then reads it: the second call is
            # suspended at EVERY line of its call while the reloader sits right after its first own store change
            for qn, role in asks[:1]:
                for k in cps[:2]:
                    for j in range(1, nb + 40):
                        c = schedule_AB_parked(sc, rng, k, j, qn, role)
                        if c:
                            cases.append(c)
        n_sched += len(cases)
        ctx.traces += len(cases)
        verdicts = judge(sc, cases, 'Conforms')
        d = sorted(i for i, v in verdicts.items() if v == 'drift')
        for i in sorted(verdicts):
            if verdicts[i] == 'drift':
                continue
            c = cases[i - 1]
            n_bad += 1
            if verdicts[i] == 'settled' and not c['crashed']:
                # the decision was fine, but after both calls returned the rule store is not the new policy
                left = ','.join('%s=%s' % (n, '+'.join(c['final'][n]) or '-') for n in sorted(c['final']) if c['final'][n])
                key = '%s:%s:settled-store %s' % (sc, c['shape'], left)
                what = 'after both calls returned, the rule store is not the new policy (it decides %s)' % left
            elif c['crashed']:
                key = '%s:%s:crashed' % (sc, c['shape'])
                what = 'a call raised during a concurrent reload: %s' % c.get('_exc')
            else:
                # the abstract window: the rule store the decision was taken on
                # (the file-rule record only where it feeds the decision: deprecated defaults)
                st = fmt_state(c['rules'], c['frules'] if sc.startswith('deprecated') else [])
                st = st if sc.startswith('deprecated') else st.split('|')[0]
                if c.get('_extra'):
                    st += '|' + c['_extra']
                key = '%s:%s:%s %s role %s at %s' % (sc, c['shape'], c['q'], 'allows' if c['allow'] else 'denies', c['role'], st)
                what = 'decision for %s (role %s) is neither that of the old nor of the new policy, or the settled rule store is not the new policy' % (c['q'], c['role'])
            ctx.violation(key, what, {'scenario': sc, 'shape': c['shape'], 'park_point_line_event': c['_k'], 'parked_at': c.get('_where'),
                                      'projected_state': fmt_state(c['rules'], c['frules']), 'decision': {'name': c['q'], 'role': c['role'], 'allow': c['allow']},
                                      'final_decisions': c['final'], 'old_files': old, 'edit': edit})
        drift += len(d)
        if d:
            ctx.note('MODEL-DRIFT %s: %d park points project to a rule-store state the specification\'s reloader does not pass through, e.g. %s'
                     % (sc, len(d), fmt_state(cases[d[0] - 1]['rules'], cases[d[0] - 1]['frules'])))
        ctx.cover.setdefault('line_events', {})[sc] = {'reloading_call': na, 'settled_call': nb}
        for c in cases[:2]:
            ctx.sample({'scenario': sc, 'shape': c['shape'], 'park_event': c['_k'], 'where': c.get('_where'),
                        'state': fmt_state(c['rules'], c['frules']), 'decision': [c['q'], c['role'], c['allow']]})
    ctx.cover.update({'schedules': n_sched, 'schedules_with_wrong_decision': n_bad, 'model_drift_park_points': drift,
                      'park_points': 'every line event' if not q else 'every line event at which the shared store changes (+1), plus every 25th'})
    ctx.assumptions += ['preemption at source-line granularity inside files under oslo_policy/ (the quantifier of C20); CPython may also switch inside a line',
                        'threads are real threads handed over with events; the schedule is deterministic']
