"""C19 - oslopolicy-checker reports what the library would decide.

MC  : spec/MC_Alias.tla / MC_Default.tla settle the evaluation the verdicts
      are defined by (alias transparency, default-rule table); the tool-side
      derivation of credentials / target / selection / order is a function
      over values (spec/Checker.tla) checked per execution.
C2S : policy files from the expression generator (with and without a rule
      named default, aliases, references to undefined names), the three
      sample tokens plus generated project-, domain- and system-scoped
      tokens, is_admin on/off, nested target files, a requested rule or the
      whole listing; the stdout of the real shell.tool(...) is parsed into a
      verdict sequence and spec/Conf_Checker.tla has TLC derive credentials
      and target from the token and target *files* and compute the expected
      sequence.  As a second, model-free witness the same inputs go through
      a real Enforcer.enforce.
"""
import contextlib
import io
import json
import os
import shutil
import tempfile

from harness import ev, tlc
from checks import eval_common as ec
from checks import c03, c06

MC_CFG_ALIAS = c06.MC_CFG


def gen_token(rng, kind):
    tok = {'methods': ['password'], 'expires_at': '2038-01-18T21:14:07Z', 'issued_at': '2000-01-18T21:14:07Z',
           'roles': [{'name': r, 'id': 'id-' + r} for r in rng.sample(['admin', 'member', 'reader', 'Admin', 'ops', 'ADMIN'], rng.randint(0, 3))],
           'user': {'id': rng.choice(['u1', 'u2']), 'name': 'user', 'domain': {'id': 'd1', 'name': 'Default'}}}
    if kind == 'project':
        tok['project'] = {'id': rng.choice(['p1', 'p2']), 'name': 'proj', 'domain': {'id': 'd1', 'name': 'Default'}, 'enabled': True}
    elif kind == 'domain':
        tok['domain'] = {'id': 'd1', 'name': 'Default'}
    elif kind == 'system':
        tok['system'] = {'all': True}
    elif kind == 'empty_project':
        tok['project'] = {}
    return tok


def leaf(rng):
    r = rng.random()
    if r < 0.35:
        return ev.role(rng.choice(['admin', 'member', 'reader', 'ADMIN', 'nobody']))
    if r < 0.5:
        return ev.generic('project_id', ev.ph(rng.choice(['project_id', 'target.project.id', 'target.project_id', 'missing'])))
    if r < 0.6:
        return ev.generic('user_id', ev.ph('user_id'))
    if r < 0.7:
        return ev.generic(rng.choice(['is_admin', 'system_scope', 'user.domain.id', 'project.domain.id', 'roles', 'roles']), rng.choice(['True', 'all', 'd1', 'admin', 'Admin', 'ADMIN']))
    if r < 0.78:
        return ev.generic(rng.choice(["'lit'", 'True', '1']), ev.ph(rng.choice(['flag', 'n.k'])))
    if r < 0.86:
        return rng.choice([ev.generic('system_scope', 'all'), ev.Not(ev.generic('system_scope', 'all'))])
    return rng.choice([ev.T, ev.F])


def body(rng, later, size):
    if size <= 1:
        if later and rng.random() < 0.35:
            return ev.rule(rng.choice(later + ['undefined_rule']))
        return leaf(rng)
    r = rng.random()
    if r < 0.2:
        return ev.Not(body(rng, later, size - 1))
    return (ev.And if r < 0.6 else ev.Or)(*[body(rng, later, max(1, (size - 1) // 2)) for _ in range(rng.choice([2, 2, 3]))])


TOOL_N = [0]


def run_tool(policy_text, token, is_admin, target, requested, rng, via_main=False):
    from oslo_policy import shell
    d = tempfile.mkdtemp(prefix='verif_chk_')
    try:
        pf = os.path.join(d, 'policy.' + rng.choice(['yaml', 'json']))
        open(pf, 'w').write(policy_text)
        af = os.path.join(d, 'access.json')
        open(af, 'w').write(json.dumps({'token': token}))
        tf = None
        if target is not None:
            tf = os.path.join(d, 'target.json')
            open(tf, 'w').write(json.dumps(target))
        out = io.StringIO()
        crashed = 0
        exc = ''
        try:
            TOOL_N[0] += 1
            with contextlib.redirect_stdout(out):
                if TOOL_N[0] % 3 == 0 or via_main:
                    # through the console entry point (oslopolicy-checker), options as command-line arguments
                    import sys
                    from unittest import mock
                    argv = ['oslopolicy-checker', '--policy', pf, '--access', af]
                    if requested:
                        argv += ['--rule', requested]
                    if is_admin:
                        argv.append('--is_admin')
                    if tf:
                        argv += ['--target', tf]
                    with mock.patch.object(sys, 'argv', argv):
                        shell.main()
                else:
                    shell.tool(pf, af, requested or None, is_admin, tf)
        except Exception as ex:
            crashed = 1
            exc = '%s: %s' % (type(ex).__name__, ex)
        return out.getvalue(), crashed, exc
    finally:
        shutil.rmtree(d, ignore_errors=True)


def parse_stdout(text):
    lines = []
    for ln in text.splitlines():
        if ln.startswith('passed: '):
            lines.append(['passed', ln[8:]])
        elif ln.startswith('failed: '):
            lines.append(['failed', ln[8:]])
        else:
            lines.append(['other', ln])
    return lines


def library_witness(texts, token, is_admin, target, names):
    """the same inputs through a real Enforcer (credentials and target derived
    here by hand from the documented meaning of the token fields)"""
    creds = dict(token)
    creds['roles'] = [r['name'] for r in token['roles']]
    creds['user_id'] = token['user']['id']
    if token.get('project'):
        creds['project_id'] = token['project']['id']
    if token.get('system'):
        creds['system_scope'] = 'all'
    creds['is_admin'] = is_admin
    if target is None:
        tgt = {'user_id': creds['user_id']}
        if creds.get('project_id'):
            tgt['project_id'] = creds['project_id']
    else:
        tgt = {}

        def fl(dd, pre):
            for k, v in dd.items():
                if isinstance(v, dict):
                    fl(v, pre + k + '.')
                else:
                    tgt[pre + k] = v
        fl(target, '')
    e = ev.make_enforcer(texts, ('name', 'default'))
    return [['passed' if e.enforce(n, dict(tgt), json.loads(json.dumps(creds))) else 'failed', n] for n in names]


def run(ctx):
    import yaml
    q = ctx.quick
    res = tlc.run('MC_Alias', MC_CFG_ALIAS % 0, timeout=3400)
    ctx.add_mc('MC_Alias(Big=0)', res)
    rng = ctx.rng
    fixtures = []
    for fn in ('auth_v3_token_admin', 'auth_v3_token_member', 'auth_v3_token_system_admin'):
        from harness import core
        with open(os.path.join(core.REPO, 'sample_data', fn + '.json')) as f:
            fixtures.append(json.load(f)['token'])
    cases = []
    n_wit = 0
    n_gen = 450 if q else 4000
    n_neg = 70 if q else 600
    for g in range(n_gen + n_neg):
        nn = rng.randint(1, 6)
        base = rng.sample(['compute:get', 'compute:list', 'admin_required', 'owner', 'svc:a:b', 'Zed:x', 'a:', ':b', 'volume:create', 'plain',
                           # names whose order is decided by a character below / above ':' right where another name ends
                           'compute-ext:get', 'compute.legacy:get', 'compute2:get', 'compute:', 'svc1:x', 'svc10:x', 'svc:', 'svc%:a', 'compute_z:get', 'Compute:get'], nn)
        if rng.random() < 0.6:
            base.append('default')
        rules = [(n, body(rng, base[i + 1:], rng.choice([1, 2, 3, 5]))) for i, n in enumerate(base)]
        if 'default' in base:
            rules[-1] = ('default', rng.choice([leaf(rng), ev.T, ev.F, ev.role('admin')]))
        forced_req = None
        if g >= n_gen:
            # a requested rule that reaches an alias only through a negation (directly, in a group, through
            # another alias): the alias decides, not the default rule
            al = rng.choice([leaf(rng), ev.T, ev.F, ev.role('admin'), ev.role('member')])
            shape = rng.randrange(4)
            top = [ev.Not(ev.rule('svc:al')), ev.Not(ev.Or(ev.rule('svc:al'), ev.F)), ev.And(ev.T, ev.Not(ev.rule('al2'))),
                   ev.Or(ev.Not(ev.rule('al2')), ev.F)][shape]
            rules = [('svc:top', top), ('al2', ev.rule('svc:al')), ('svc:al', al)]
            base = ['svc:top', 'al2', 'svc:al']
            if rng.random() < 0.6:
                rules.append(('default', rng.choice([ev.T, ev.F, ev.role('admin')])))
                base.append('default')
            forced_req = 'svc:top'
        force_main = False
        if g % 25 == 7 and g < n_gen:
            # the --is_admin switch of the command line: policies that look at is_admin, through the console entry point
            rules = [('svc:adm', ev.generic('is_admin', 'True')), ('svc:nadm', ev.Not(ev.generic('is_admin', 'True'))),
                     ('svc:mix', ev.Or(ev.role('nobody'), ev.rule('adm'))), ('adm', ev.generic('is_admin', 'True')), ('svc:false', ev.generic('is_admin', 'False'))]
            base = [n for n, _ in rules]
            force_main = True
        texts = {n: ev.rule_text(t, rng) for n, t in rules}
        policy_text = rng.choice([json.dumps(texts, indent=1), json.dumps(texts, indent='\t'), json.dumps(texts, separators=(',\t', ':\t')),
                                  yaml.safe_dump(texts, default_flow_style=False)])
        token = json.loads(json.dumps(rng.choice(fixtures))) if rng.random() < 0.3 else gen_token(rng, rng.choice(['project', 'project', 'domain', 'system', 'none', 'empty_project']))
        if 'catalog' in token and rng.random() < 0.8:
            token['catalog'] = token['catalog'][:1]
        is_admin = rng.random() < 0.3
        target = None
        if rng.random() < 0.5:
            target = rng.choice([{'project_id': 'p1'}, {'target': {'project': {'id': 'p1'}}, 'flag': True}, {'n': {'k': 'lit'}, 'project_id': 'p2', 'user_id': 'u1'},
                                 {'flag': 1, 'missing2': None}, {}, {'target': {'secret': {'x': 1}, 'project_id': 'p1'}, 'user_id': 'u1', 'flag': True},
                                 {'a': {'b': {'c': 'lit'}}, 'n': {'k': 'lit'}, 'project_id': 'p1'}, {'target': {}}, {'n': {}, 'flag': {}}])
        requested = ''
        r = rng.random()
        if r < 0.3:
            requested = rng.choice(base)
        elif r < 0.4 and 'default' in base:
            requested = 'not:defined'
        if forced_req:
            requested = forced_req
        if force_main:
            is_admin = (g // 25) % 2 == 0
        out, crashed, exc = run_tool(policy_text, token, is_admin, target, requested, rng, via_main=force_main)
        strs = list(texts.values())
        ev.all_text(token, strs)
        ev.all_text(target or {}, strs)
        strs += ['True', 'False', 'all']
        c = {'rules': [{'name': n, 'cps': ev.cps(n), 'tree': ev.strip(t)} for n, t in rules], 'token': ev.enc(token), 'is_admin': 1 if is_admin else 0,
             'has_target': 0 if target is None else 1, 'target': ev.enc(target or {}), 'requested': requested, 'lowmap': ev.lowmap_for(*strs),
             'lines': parse_stdout(out), 'crashed': crashed, '_policy': texts, '_token': token, '_target': target, '_stdout': out, '_exc': exc,
             '_is_admin': is_admin}
        cases.append(c)
        if not crashed:
            names = [requested] if requested else sorted(n for n in texts if ':' in n)
            try:
                wit = library_witness(texts, token, is_admin, target, names)
                n_wit += 1
                if wit != c['lines']:
                    ctx.violation('tool-differs-from-Enforcer.enforce', 'oslopolicy-checker output differs from Enforcer.enforce on the same inputs',
                                  {'policy': texts, 'token': token, 'target': target, 'is_admin': is_admin, 'requested': requested,
                                   'tool_stdout': out, 'library': wit})
            except RecursionError:
                pass
    rejected, st = tlc.judge_cases('Conf_Checker', [ec.strip_case(c) for c in cases], chunk=3000, timeout=3000)
    ctx.traces += len(cases)
    from harness import canary
    from checks import canaries
    canary.probe(ctx, 'Conf_Checker', [c for i, c in enumerate(cases, 1) if i not in set(rejected)], canaries.checker,
                 canary.by_cases('Conf_Checker', ec.strip_case, chunk=3000))
    for i in rejected:
        c = cases[i - 1]
        key = 'crashed' if c['crashed'] else ('requested-rule' if c['requested'] else 'listing')
        ctx.violation(key, 'verdicts printed by oslopolicy-checker differ from the specification (derivation, selection, order or decision)',
                      {'policy': c['_policy'], 'token': c['_token'], 'target': c['_target'], 'is_admin': c['_is_admin'], 'requested': c['requested'],
                       'tool_stdout': c['_stdout'], 'exception': c['_exc']})
    ctx.cover.update({'tool_runs': len(cases), 'library_witness_runs': n_wit, 'verdict_lines': sum(len(c['lines']) for c in cases),
                      'passed_lines': sum(1 for c in cases for l in c['lines'] if l[0] == 'passed')})
    for c in cases[:5]:
        ctx.sample({'policy': c['_policy'], 'roles': [r['name'] for r in c['_token']['roles']], 'target': c['_target'], 'requested': c['requested'], 'stdout': c['_stdout']})
    ctx.assumptions += ['rule graphs are generated acyclic; a requested rule is either defined or covered by a defined default rule',
                        'http: checks and custom check classes are not part of the generated policy files (the tool calls checks directly)']
