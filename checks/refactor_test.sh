#!/bin/bash
# run the checks of a layer against behaviour-preserving refactorings: every result must be MISSED
# (= no violation reported).  usage: refactor_test.sh <dir with Cxx/patchN.diff>
layer() { case $1 in C01|C02|C15) echo "C01 C02 C15";; C03|C04|C05|C06|C07|C08|C14|C16) echo "C03 C04 C05 C06 C07 C08 C14 C16";; C09|C10|C11|C12|C20) echo "C09 C10 C11 C12 C20 C08";; *) echo "C13 C17 C18 C19 C09";; esac; }
for d in $1/C*; do p=$(basename $d); for i in 1 2; do
  if [ -f $d/patch$i.diff ]; then
    echo "== $p refactoring $i: $(python3 -c "import json;print(json.load(open('$d/meta$i.json')).get('summary','')[:160])" 2>/dev/null)"
    /venv/bin/python checks/mutant.py $d/patch$i.diff $(layer $p) 2>&1 | grep "DETECTED\|MISSED\|BROKEN\|VIOLATION\|MACHINERY" | cut -c1-200
  fi
done; done
