"""C15 - printing a rule and parsing it back is the identity on meaning and
on text; dumping a rule set and loading the dump gives an equivalent set.

MC  : spec/MC_Parser.tla invariant RoundTrip - for every token sequence up to
      MaxLen that the machine accepts, PrintToks(result) re-parses to a tree
      with the same print and the same decision table.
C2S : the real printers as black boxes.  s1 = str(parse_rule(x)),
      s2 = str(parse_rule(s1)); the independent splitter turns s1/s2 into
      token images; spec/Conf_Parser.tla (PrintOK) has TLC parse s1 with the
      specification's grammar and compare decisions with the table the code
      gives the original rule.  Leaves of every built-in kind.  Rule sets go
      through str(Rules) / Rules.load (DumpOK); RuleDefault.__eq__ on pairs
      (EqOK).
"""
import json

from harness import lang, tlc
from checks import parser_common as pc
from checks.c01 import MC_CFG


def run(ctx):
    from oslo_policy import _parser, policy
    q = ctx.quick
    res = tlc.run('MC_Parser', MC_CFG % (5 if q else 7, 0), coverage=not q, timeout=3000)
    ctx.add_mc('MC_Parser(MaxLen=%d)' % (5 if q else 7), res)

    lang.install_http_stub()
    envs = [lang.LeafEnv(lang.LeafEnv.WITH_HTTP, off) for off in range(8)][:6] + [pc.ROLE_ENV]
    envs[1] = lang.LeafEnv(('http', 'role', 'https', 'rule'), 0)
    from harness import ev as _ev
    _ev.install_probes()
    envs[2] = lang.LeafEnv(('colon', 'probe', 'role', 'generic', 'probe'), 0)
    lenv = envs[0]
    cases = []
    # every sentence up to the bound (rejected inputs print as "!", also checked)
    n_ex = 5 if q else 6
    for toks in lang.all_token_seqs(n_ex):
        for le in (pc.ROLE_ENV, ctx.rng.choice(envs[:6])):
            cases.append(pc.record_text(toks, lang.render(toks, None, le.text), 'parse', 'c15', le))
    # short sequences with quoted strings and colon-less words too: whatever the rule is parsed to
    # prints as something that parses back to the same thing
    for toks in lang.all_token_seqs(2 if q else 3, (lang.LP, lang.RP, lang.AND, lang.OR, lang.NOT, lang.STR, lang.BAD_TOK, lang.LEAF0)):
        cases.append(pc.record_text(toks, lang.render(toks, ctx.rng), ctx.rng.choice(['parse', 'load', 'enforce']), 'c15'))
    n_exh = len(cases)
    trees = []
    for i in range(400 if q else 10000):
        tree = lang.random_tree(ctx.rng, ctx.rng.choice([2, 3, 5, 8, 12, 16]), ctx.rng.randint(1, 7))
        trees.append(tree)
        toks = lang.tree_tokens(tree, ctx.rng)
        le = ctx.rng.choice(envs)
        cases.append(pc.record_text(toks, lang.render(toks, ctx.rng, le.text), ctx.rng.choice(['parse', 'load']), 'c15', le))
    n_text = len(cases)
    atoms = [lang.LEAF0 + 1, lang.LEAF0 + 2, lang.LEAF0 + 3, lang.TRUE_TOK, lang.FALSE_TOK]
    shapes = list(pc.list_shapes(2, 2, atoms))
    if not q:
        shapes += list(pc.list_shapes(3, 2, atoms[:4]))
    for outer in shapes:
        le = ctx.rng.choice(envs)
        cases.append(pc.record_list(outer, pc.list_value(outer, ctx.rng, le), 'parse', 'c15', le))
    n_list = len(cases) - n_text
    # whole rule sets through str(Rules) / Rules.load
    n_sets = 60 if q else 1500
    for s in range(n_sets):
        nl = ctx.rng.randint(1, 5)
        lenv = ctx.rng.choice(envs)
        names = ['p:%d' % j for j in range(ctx.rng.randint(1, 6))]
        if ctx.rng.random() < 0.35:
            # any string is a rule name: the empty one, blanks, JSON / YAML keywords, quotes, non-BMP characters
            names[ctx.rng.randrange(len(names))] = ctx.rng.choice(['', ' ', '0', 'null', 'true', '~', 'a b', 'é', 'p:"q"', '\\', 'k\tv', '🔑:open', 'x' * 90, '#c', '- d', '{e}'])
        leaves = list(range(1, nl + 1))
        rules_in = dict(lenv.rules(leaves))
        toks_of = {}
        for nm in names:
            r = ctx.rng.random()
            if r < 0.15:
                toks_of[nm], rules_in[nm] = [lang.TRUE_TOK], ctx.rng.choice(['', '@', []])
            else:
                t = lang.tree_tokens(lang.random_tree(ctx.rng, ctx.rng.choice([1, 2, 4, 7]), nl), ctx.rng)
                toks_of[nm], rules_in[nm] = t, lang.render(t, ctx.rng, lenv.text)
        try:
            rules = policy.Rules.from_dict(rules_in)
            dump = str(rules)
            parsed_dump = json.loads(dump)
            # (load_json is the older public name of the same loader)
            rules2 = policy.Rules.load(dump) if ctx.rng.random() < 0.7 else policy.Rules.load_json(dump)
            e1 = pc.enforcer_for({})
            e1.set_rules(rules, use_conf=False)
            e2 = pc.enforcer_for({})
            e2.set_rules(rules2, use_conf=False)
            for nm in names:
                c = {'kind': 'dump', 'want': 'c15', 'raised': 0, 'nleaves': nl, 'present': 1 if nm in rules2 and nm in parsed_dump else 0,
                     'dumped': [], 'table': [], 'table2': [], '_name': nm, '_rules': rules_in, '_dump': dump}
                if c['present']:
                    c['dumped'] = lang.alpha(parsed_dump[nm], lenv.leaf_of)
                    c['table'] = pc.check_table(rules[nm], leaves, lenv, e1)
                    c['table2'] = pc.check_table(rules2[nm], leaves, lenv, e2)
                cases.append(c)
        except Exception as ex:
            cases.append({'kind': 'dump', 'want': 'c15', 'raised': 1, 'nleaves': nl, 'present': 0, 'dumped': [], 'table': [],
                          'table2': [], '_rules': rules_in, '_exc': '%s: %s' % (type(ex).__name__, ex)})
    # rule sets holding check objects the service built itself (not parsed from text): every built-in leaf kind,
    # with a match that contains further colons too; the dump loads back to an equivalent set
    from oslo_policy import _checks
    for kinds in (('colon',), ('role', 'colon'), ('generic', 'path'), ('literal', 'bool'), ('rule', 'colon')):
        lenv = lang.LeafEnv(kinds, 0)
        leaves = [1, 2]

        def obj(i, lenv=lenv):
            kind, match = lenv.text(i).split(':', 1)
            return _checks.registered_checks.get(kind, _checks.GenericCheck)(kind, match)
        built = {'p:leaf': obj(1), 'p:not': _checks.NotCheck(obj(2)), 'p:and': _checks.AndCheck([obj(1), obj(2)]),
                 'p:or': _checks.OrCheck([_checks.NotCheck(obj(1)), obj(2)])}
        try:
            extra = {n: _parser.parse_rule(t) for n, t in lenv.rules(leaves).items()}
            rules = policy.Rules(dict(built, **extra))
            dump = str(rules)
            parsed_dump = json.loads(dump)
            rules2 = policy.Rules.load(dump)
            e1 = pc.enforcer_for({})
            e1.set_rules(rules, use_conf=False)
            e2 = pc.enforcer_for({})
            e2.set_rules(rules2, use_conf=False)
            for nm in built:
                c = {'kind': 'dump', 'want': 'c15', 'raised': 0, 'nleaves': 2, 'present': 1 if nm in rules2 and nm in parsed_dump else 0,
                     'dumped': [], 'table': [], 'table2': [], '_name': nm, '_rules': {k: str(v) for k, v in built.items()}, '_dump': dump,
                     '_built': 'check objects constructed directly'}
                if c['present']:
                    c['dumped'] = lang.alpha(parsed_dump[nm], lenv.leaf_of)
                    c['table'] = pc.check_table(rules[nm], leaves, lenv, e1)
                    c['table2'] = pc.check_table(rules2[nm], leaves, lenv, e2)
                cases.append(c)
        except Exception as ex:
            cases.append({'kind': 'dump', 'want': 'c15', 'raised': 1, 'nleaves': 2, 'present': 0, 'dumped': [], 'table': [],
                          'table2': [], '_rules': {k: str(v) for k, v in built.items()}, '_exc': '%s: %s' % (type(ex).__name__, ex)})
    # the other printer of rules: the sample generator states each registered default as text; a default given
    # in the list-of-lists form reads back (uncommented) as a rule with the same decisions
    import os
    import shutil
    import tempfile
    from unittest import mock
    from oslo_policy import generator
    lenv = lang.LeafEnv(('role',), 0)
    leaves = [1, 2, 3]
    L = lenv.text
    gdir = tempfile.mkdtemp(prefix='verif_c15_')
    try:
        for vi, value in enumerate(([[L(1), L(2)], [L(3)]], [], [[L(1)]], [L(1), L(2)], [[L(1), '@'], ['!']], [[L(1)], L(3)])):
            for fmt in ('yaml', 'json'):
                c = {'kind': 'dump', 'want': 'c15', 'raised': 0, 'nleaves': 3, 'present': 0, 'dumped': [], 'table': [], 'table2': [],
                     '_name': 'p:x', '_rules': {'p:x': value}, '_built': 'registered default in list form, printed by the %s sample generator' % fmt}
                try:
                    d0 = policy.RuleDefault('p:x', value)
                    out = os.path.join(gdir, 'sample.%d.%s' % (vi, fmt))
                    with mock.patch('oslo_policy.generator.get_policies_dict', return_value={'sec': [d0]}):
                        generator._generate_sample(['sec'], out, fmt)
                    text = open(out, encoding='utf-8').read()
                    c['_dump'] = text
                    unc = '\n'.join(ln[1:] if ln.startswith('#"') else ln for ln in text.split('\n'))
                    loaded = policy.parse_file_contents(unc)
                    rules2 = policy.Rules.from_dict(loaded)
                    c['present'] = 1 if 'p:x' in rules2 else 0
                    if c['present']:
                        e1 = pc.enforcer_for({})
                        e2 = pc.enforcer_for({})
                        e2.set_rules(rules2, use_conf=False)
                        c['dumped'] = lang.alpha(loaded['p:x'], lenv.leaf_of)
                        c['table'] = pc.check_table(d0.check, leaves, lenv, e1)
                        c['table2'] = pc.check_table(rules2['p:x'], leaves, lenv, e2)
                except Exception as ex:
                    c.update({'raised': 1, '_exc': '%s: %s' % (type(ex).__name__, ex)})
                cases.append(c)
    finally:
        shutil.rmtree(gdir, ignore_errors=True)
    # a long-lived rule set: dump, change in place (merge / item assignment / pop), dump and load again;
    # references inside the set have been evaluated before the change
    for s_i in range(30 if q else 600):
        lenv = ctx.rng.choice(envs)
        nl = 3
        leaves = [1, 2, 3]
        def mk():
            return lang.render(lang.tree_tokens(lang.random_tree(ctx.rng, ctx.rng.choice([1, 2, 4]), nl), ctx.rng), ctx.rng, lenv.text)
        rules_in = dict(lenv.rules(leaves))
        rules_in.update({'p:a': 'rule:p:b or ' + mk(), 'p:b': mk(), 'p:c': mk()})
        try:
            e1 = pc.enforcer_for(rules_in)
            rules = e1.rules
            str(rules)
            for asg in ([], [1], [1, 2, 3]):
                t_, c_ = lenv.env(asg, leaves)
                e1.enforce('p:a', t_, c_)
            how = ctx.rng.choice(['set_rules', 'update', 'setitem', 'pop'])
            newb = mk()
            if how == 'set_rules':
                e1.set_rules(policy.Rules.from_dict({'p:b': newb, 'p:d': mk()}), overwrite=False, use_conf=False)
            elif how == 'update':
                rules.update(policy.Rules.from_dict({'p:b': newb}))
            elif how == 'setitem':
                rules['p:b'] = _parser.parse_rule(newb)
            else:
                rules.pop('p:c')
            dump = str(rules)
            parsed_dump = json.loads(dump)
            rules2 = policy.Rules.load(dump)
            e2 = pc.enforcer_for({})
            e2.set_rules(rules2, use_conf=False)
            for nm in sorted(set(rules) | set(rules2)):
                if not nm.startswith('p:'):
                    continue
                c = {'kind': 'dump', 'want': 'c15', 'raised': 0, 'nleaves': nl, 'present': 1 if (nm in rules2 and nm in parsed_dump and nm in rules) else 0,
                     'dumped': [], 'table': [], 'table2': [], '_name': nm, '_rules': dict(rules_in), '_dump': dump, '_how': how}
                if c['present'] and 'rule:' not in parsed_dump[nm]:
                    c['dumped'] = lang.alpha(parsed_dump[nm], lenv.leaf_of)
                    c['table'] = pc.check_table(rules[nm], leaves, lenv, e1)
                    c['table2'] = pc.check_table(rules2[nm], leaves, lenv, e2)
                elif c['present']:
                    # a rule with a reference: compare decisions only (kind "eq" with eq = 1)
                    c = {'kind': 'eq', 'want': 'c15', 'eq': 1, 'tableA': pc.check_table(rules[nm], leaves, lenv, e1),
                         'tableB': pc.check_table(rules2[nm], leaves, lenv, e2), '_a': 'live rule %s after %s' % (nm, how), '_b': 'the same rule after str(Rules)/Rules.load: ' + dump}
                cases.append(c)
        except Exception as ex:
            cases.append({'kind': 'dump', 'want': 'c15', 'raised': 1, 'nleaves': nl, 'present': 0, 'dumped': [], 'table': [],
                          'table2': [], '_rules': rules_in, '_exc': '%s: %s' % (type(ex).__name__, ex)})
    n_dump = len(cases) - n_text - n_list
    # RuleDefault equality on pairs of textual variants and of different rules
    n_eq = 0
    for i in range(300 if q else 6000):
        nl = ctx.rng.randint(1, 4)
        lenv = ctx.rng.choice(envs)
        leaves = list(range(1, nl + 1))
        ta = lang.random_tree(ctx.rng, ctx.rng.choice([1, 2, 3, 5]), nl)
        tb = ta if ctx.rng.random() < 0.5 else lang.random_tree(ctx.rng, ctx.rng.choice([1, 2, 3, 5]), nl)
        xa = lang.render(lang.tree_tokens(ta, ctx.rng), ctx.rng, lenv.text)
        xb = lang.render(lang.tree_tokens(tb, ctx.rng), ctx.rng, lenv.text)
        try:
            ra, rb = policy.RuleDefault('p:x', xa), policy.RuleDefault('p:x', xb)
            cases.append({'kind': 'eq', 'want': 'c15', 'eq': 1 if ra == rb else 0,
                          'tableA': pc.check_table(ra.check, leaves, lenv), 'tableB': pc.check_table(rb.check, leaves, lenv),
                          '_a': xa, '_b': xb})
            n_eq += cases[-1]['eq']
        except Exception as ex:       # building or evaluating a parsed rule raised: an observation, judged like a failed dump
            cases.append({'kind': 'dump', 'want': 'c15', 'raised': 1, 'nleaves': nl, 'present': 0, 'dumped': [], 'table': [],
                          'table2': [], '_rules': {'a': xa, 'b': xb}, '_exc': '%s: %s' % (type(ex).__name__, ex)})
    bad = pc.judge(ctx, cases)
    for c in bad:
        if c['kind'] == 'dump':
            ctx.violation('ruleset-dump-load', 'str(Rules) / Rules.load does not give an equivalent rule set',
                          {k: c.get(k) for k in ('_name', '_rules', '_dump', 'dumped', 'table', 'table2', 'present', '_exc')})
        elif c['kind'] == 'eq':
            ctx.violation('ruledefault-eq', 'two RuleDefaults compare equal but decide differently',
                          {k: c.get(k) for k in ('_a', '_b', 'tableA', 'tableB')})
        else:
            ctx.violation('print-reparse:' + c['kind'], 'printing a parsed rule and parsing the print changes text or decisions',
                          pc.describe(c))
    ctx.exhaustive = True
    ctx.cover.update({'exhaustive_token_sequences_up_to': n_ex, 'exhaustive_cases': n_exh, 'text_cases': n_text,
                      'list_cases': n_list, 'ruleset_rules': n_dump, 'rule_sets': n_sets, 'eq_pairs_equal': n_eq,
                      'leaf_kinds': list(lang.LeafEnv.ALL)})
    for c in cases[n_exh - 2:n_exh + 2] + cases[n_text:n_text + 2] + cases[n_text + n_list:n_text + n_list + 2] + cases[-2:]:
        ctx.sample({k: c[k] for k in c if k in ('kind', 'toks', '_text', '_printed', 'pr', 'table', '_value', '_dump', 'dumped', '_a', '_b', 'eq')})
    ctx.assumptions += ['leaves contain no whitespace and neither start with "(" nor end with ")" (the tokenizer\'s documented assumption)',
                        'printed text is turned into tokens by the independent splitter of harness/lang.py, not by the library']
