"""C06 - rule:NAME is a transparent alias for NAME's current definition.

MC  : spec/MC_Alias.tla - rule graphs over three names with references at top
      level and under not/and/or, undefined references, two probe checks:
      alias transparency, inlining preserves every decision, probes are told
      the enforced policy name (None for a check object), operational =
      declarative evaluation.
C2S : random acyclic rule graphs on up to 8 names (alias chains up to depth
      8, diamonds, references under not/and/or, undefined references, with
      and without a default rule, 3- and 4-argument custom check classes)
      enforced through real Enforcers; decisions and the probe log are
      judged by spec/Conf_Eval.tla; every reference occurrence is also
      inlined textually and the decisions compared (SameOK).
"""
from harness import ev, tlc
from checks import eval_common as ec

MC_CFG = """SPECIFICATION Spec
CONSTANT Big = %d
INVARIANT InvAliasTransparent
INVARIANT InvUndefinedRefLikeUnknown
INVARIANT InvInlinePreserves
INVARIANT InvProbeSeesEnforcedName
INVARIANT InvOpIsDen
CHECK_DEADLOCK FALSE
"""


def rand_body(rng, later, size, pid, undef=True):
    """random expression over role leaves, probes and references to ``later``
    names / undefined names"""
    if size <= 1:
        r = rng.random()
        if r < 0.45 and later:
            return ev.rule(rng.choice(later))
        if r < 0.55 and undef:
            return ev.rule(rng.choice(['zz', 'yy']))
        if r < 0.75:
            return ev.role(rng.choice(['r1', 'r2']))
        if r < 0.9:
            pid[0] += 1
            ar = rng.choice([3, 4])
            return ev.probe(pid[0], ar, rng.choice(['f1', 'f2']), derived=rng.choice([False, False, True, 'n'] if ar == 4 else [False, True]))
        return rng.choice([ev.T, ev.F])
    r = rng.random()
    if r < 0.25:
        return ev.Not(rand_body(rng, later, size - 1, pid, undef))
    n = rng.choice([2, 2, 3])
    kids = [rand_body(rng, later, max(1, (size - 1) // n), pid, undef) for _ in range(n)]
    return (ev.And if r < 0.6 else ev.Or)(*kids)


def ref_paths(t, path=()):
    if t['k'] == 'rule':
        yield path
    elif t['k'] == 'not':
        yield from ref_paths(t['a'], path + (1,))
    elif t['k'] in ('and', 'or'):
        for i, c in enumerate(t['as']):
            yield from ref_paths(c, path + (i + 1,))


def subtree(t, path):
    for i in path:
        t = t['a'] if t['k'] == 'not' else t['as'][i - 1]
    return t


def replace(t, path, new):
    if not path:
        return new
    t = dict(t)
    if t['k'] == 'not':
        t['a'] = replace(t['a'], path[1:], new)
    else:
        t['as'] = list(t['as'])
        t['as'][path[0] - 1] = replace(t['as'][path[0] - 1], path[1:], new)
    return t


CREDS = [{'roles': [], 'f': []}, {'roles': ['r1'], 'f': ['f1']}, {'roles': ['R2'], 'f': ['f2']},
         {'roles': ['r1', 'r2'], 'f': ['f1', 'f2']}, {'roles': ['r2'], 'f': ['f1']}, {'f': ['f2']}]


def checker_verdict(texts, name, roles):
    """decision of the oslopolicy-checker tool for one rule: its printed verdict"""
    import contextlib
    import io
    import json
    import os
    import shutil
    import tempfile
    from oslo_policy import shell
    d = tempfile.mkdtemp(prefix='verif_chk_')
    try:
        pf, af = os.path.join(d, 'policy.json'), os.path.join(d, 'access.json')
        with open(pf, 'w') as f:
            json.dump(texts, f)
        with open(af, 'w') as f:
            json.dump({'token': {'roles': [{'name': r, 'id': r} for r in roles], 'user': {'id': 'u', 'domain': {'id': 'd'}},
                                 'project': {'id': 'p', 'domain': {'id': 'd'}}}}, f)
        out = io.StringIO()
        with contextlib.redirect_stdout(out):
            shell.tool(pf, af, name, False, None)
        verdicts = [ln.strip() for ln in out.getvalue().splitlines() if ln.strip()]
        if verdicts == ['passed: ' + name]:
            return True
        if verdicts == ['failed: ' + name]:
            return False
        raise RuntimeError('checker printed %r' % (verdicts,))
    finally:
        shutil.rmtree(d, ignore_errors=True)


def run(ctx):
    q = ctx.quick
    ev.install_probes()
    res = tlc.run('MC_Alias', MC_CFG % (0 if q else 1), coverage=not q, timeout=3400)
    ctx.add_mc('MC_Alias(Big=%d)' % (0 if q else 1), res)
    rng = ctx.rng
    cases = []
    # (FIRST in the run: whatever the library remembers per class is still unset, and the base classes are
    #  evaluated before the classes derived from them)
    # custom check classes of every call signature (4 parameters, 3, derived 3-from-4 and 4-from-3, a 4th
    # parameter under another name), evaluated one after the other on one enforcer in every order: each is
    # told the enforced name iff ITS signature takes it
    import itertools as _it
    KINDS_P = [(4, False), (3, False), (3, True), (4, True), (4, 'n')]
    for (a1, d1), (a2, d2) in _it.permutations(KINDS_P, 2):
        pa, pb = ev.probe(1, a1, 'f1', d1), ev.probe(2, a2, 'f2', d2)
        rules = [('p:a', pa), ('p:b', pb), ('p:c', ev.And(ev.rule('p:a'), ev.rule('p:b'))), ('p:d', ev.Or(ev.rule('p:b'), ev.rule('p:a')))]
        enf = ev.make_enforcer({n: ev.rule_text(t) for n, t in rules}, ('opt', None))
        for qn in ('p:a', 'p:b', 'p:c', 'p:d', 'p:b', 'p:a'):
            cases.append(ec.enforce_case(rules, {'by': 'name', 'name': qn}, {}, {'roles': [], 'f': ['f1', 'f2']}, dflt=('opt', None), checklog=1,
                                         want='c06', enforcer=enf))
    n_graphs = 60 if q else 1500
    n_inl = 0
    max_chain = 0
    for g in range(n_graphs):
        nn = rng.randint(2, 8)
        names = ['n%d' % i for i in range(1, nn + 1)]
        if rng.random() < 0.2:
            # a rule name is a plain string, per-cent signs and all: a reference is looked up verbatim
            names = [nm + rng.choice(['%', '%%', '%(k)s', '%s', '100%']) if rng.random() < 0.5 else nm for nm in names]
        pid = [0]
        rules = []
        chain = rng.random() < 0.3
        for i, n in enumerate(names):
            later = names[i + 1:]
            if chain and later:
                body = ev.rule(later[0]) if rng.random() < 0.8 else ev.Not(ev.rule(later[0]))
            else:
                # the last name may serve as default rule: it must not fall back to itself
                body = rand_body(rng, later, rng.choice([1, 2, 3, 5]), pid, undef=bool(later))
            rules.append((n, body))
        if chain:
            max_chain = max(max_chain, nn)
            if nn >= 3 and rng.random() < 0.5:
                # a link that is a bare reference to an undefined name: the
                # chain then continues through the default-rule fallback
                k = rng.randrange(1, nn - 1)
                rules[k] = (names[k], ev.rule(rng.choice(['zz', 'yy'])))
        dflt = rng.choice([('opt', None), ('name', names[-1]), ('check', ev.role('r1')), None, ('opt', 'zz'),
                           ('check', ev.T), ('check', ev.Or(ev.role('r1'), ev.role('r2'))), ('check', ev.Not(ev.role('r2')))])
        queries = rng.sample(names, min(3, nn)) + ['zz']
        # some of the names are registered in code with scope types: the scope gate belongs to the name
        # that is ENFORCED, never to a name it merely refers to
        registered = [(n, rng.choice([['project'], ['system'], ['domain']])) for n in names if rng.random() < 0.3] if rng.random() < 0.3 else []
        for qn in queries:
            for creds in rng.sample(CREDS, 3):
                if registered:
                    creds = dict(creds, **rng.choice([{'system_scope': 'all'}, {'project_id': 'p'}, {'domain_id': 'd'}]))
                # (how the rule set reaches the enforcer - a Rules object with the enforcer's default, with
                #  another one, with none, loaded from text, a dict, the constructor - never matters)
                c = ec.enforce_case(rules, {'by': 'name', 'name': qn}, {}, creds, dflt=dflt, checklog=1, rng=rng, want='c06', registered=registered,
                                    via=rng.choice(['rules_obj', 'rules_obj', 'own_default', 'no_default', 'loaded', 'dict', 'ctor', 'main_file', 'dir_only']))
                cases.append(c)
        # a body enforced as a check object: probes are told None
        nb, body = rng.choice(rules)
        cases.append(ec.enforce_case(rules, {'by': 'check', 'tree': body}, {}, rng.choice(CREDS), dflt=dflt, checklog=1, want='c06'))
        # inline one reference occurrence (textually) and compare
        d = dict(rules)
        occ = [(n, p) for n, t in rules for p in ref_paths(t) if subtree(t, p)['name'] in d]
        rng.shuffle(occ)
        for n, p in occ[:2 if q else 4]:
            target_name = subtree(d[n], p)['name']
            inl_tree = replace(d[n], p, d[target_name])
            rules2 = [(m, inl_tree if m == n else t) for m, t in rules]
            # the *text* of the inlined rule is produced by pasting the parenthesised definition text
            texts = {m: ev.rule_text(t) for m, t in rules}
            for qn in queries[:2]:
                for creds in rng.sample(CREDS, 2):
                    a = ec.enforce_case(rules, {'by': 'name', 'name': qn}, {}, creds, dflt=dflt, want='c06')
                    enf2 = ev.make_enforcer(dict(texts, **{n: paste(texts[n], d[n], p, '(' + texts[target_name] + ')')}), dflt)
                    b = ec.enforce_case(rules2, {'by': 'name', 'name': qn}, {}, creds, dflt=dflt, want='c06', enforcer=enf2)
                    cases.append(b)
                    cases.append({'kind': 'same', 'a': a['obs'], 'b': b['obs'], '_orig': a['_texts'], '_inlined_rule': n,
                                  '_inlined_text': paste(texts[n], d[n], p, '(' + texts[target_name] + ')'), '_call': a['_call'], '_creds': a['_creds'], '_dflt': a['_dflt']})
                    n_inl += 1
    # the scope gate belongs to the enforced name: aliases of a scoped registered policy are not gated
    for scopes in (['system'], ['project'], ['domain']):
        for cred_scope in ({'system_scope': 'all'}, {'project_id': 'p'}, {'domain_id': 'd'}):
            rules = [('p:q', ev.role('r1')), ('p:alias', ev.rule('p:q')), ('p:chain', ev.rule('p:alias')), ('p:mix', ev.Or(ev.rule('p:q'), ev.F))]
            for qn in ('p:q', 'p:alias', 'p:chain', 'p:mix'):
                for doraise in (0, 1):
                    cases.append(ec.enforce_case(rules, {'by': 'name', 'name': qn, 'doraise': doraise}, {}, dict({'roles': ['r1'], 'f': []}, **cred_scope),
                                                 dflt=('opt', None), registered=[('p:q', scopes)], want='c06'))
    # the oslopolicy-checker tool resolves references the same way (its default rule is the one named
    # "default"): aliases, chains, references under not, undefined references with and without a default rule
    for dbody in (None, ev.T, ev.F, ev.role('r2')):
        rules = [('svc:direct', ev.role('r1')), ('svc:alias', ev.rule('svc:direct')), ('svc:chain', ev.rule('svc:alias')),
                 ('svc:via_undefined', ev.rule('nowhere')), ('svc:not_undefined', ev.Not(ev.rule('nowhere'))),
                 ('svc:nested', ev.Or(ev.And(ev.role('r1'), ev.rule('nowhere')), ev.rule('svc:chain'))), ('svc:chain2', ev.rule('svc:via_undefined'))]
        if dbody is not None:
            rules.append(('default', dbody))
        texts = {n: ev.rule_text(t) for n, t in rules}
        for roles in ([], ['r1'], ['r2'], ['r1', 'r2']):
            for qn in [n for n, _ in rules if n != 'default']:
                cases.append(ec.enforce_case(rules, {'by': 'name', 'name': qn}, {}, {'roles': roles, 'f': []}, dflt=('name', 'default'), want='c06',
                                             runner=lambda thunk, qn=qn, roles=roles, texts=texts: checker_verdict(texts, qn, roles),
                                             extra={'_via': 'oslopolicy-checker (shell.tool) --rule %s' % qn}))
    # sessions: a reference is resolved against the definition that is current at the time of
    # the call - the rule store of a long-lived enforcer is replaced / merged between calls
    sessions = []
    for i in range(40 if q else 1000):
        leafs = [ev.role('r1'), ev.role('r2'), ev.T, ev.F]
        names = ['a1', 'a2', 'a3']
        start = [('a1', ev.rule('a2')), ('a2', rng.choice([ev.rule('a3'), ev.Not(ev.rule('ghost')), ev.rule('ghost')])), ('a3', rng.choice(leafs)),
                 ('default', rng.choice(leafs))]
        dflt = rng.choice([None, ('name', 'a3'), ('opt', 'default')])
        sess = ec.Session(start, dflt, via=rng.choice(['rules_obj', 'dict']))
        live_t, live_c = {}, dict(rng.choice(CREDS))
        for step in range(rng.randint(2, 5)):
            for _ in range(rng.randint(1, 2)):
                sess.enforce({'by': 'name', 'name': rng.choice(['a1', 'a2', 'ghost', 'a3'])}, live_t, live_c, checklog=1, same_objects=True)
                if rng.random() < 0.5:
                    # the caller edits its credentials in place between two calls
                    live_c['roles'] = [r for r in live_c.get('roles', []) if rng.random() < 0.5] + ([rng.choice(['r1', 'r2'])] if rng.random() < 0.6 else [])
            redefine = rng.choice(['a3', 'default', 'a2'])
            body = rng.choice(leafs) if redefine != 'a2' else rng.choice([ev.rule('a3'), ev.rule('ghost'), ev.Not(ev.rule('a3'))])
            sess.set_rules([(redefine, body)], overwrite=False, how=rng.choice(['rules_obj', 'dict']), scribble=rng.random() < 0.5)
        sess.enforce({'by': 'name', 'name': 'a1'}, {}, rng.choice(CREDS), checklog=1)
        sess.enforce({'by': 'name', 'name': 'ghost'}, {}, rng.choice(CREDS), checklog=1)
        sessions.append(sess)
    for si, evi in ec.judge_sessions(ctx, sessions):
        ctx.violation('session:reference-not-resolved-against-current-definition',
                      'after a rule was redefined through the API a rule: reference (or its default-rule fallback) still decides by an earlier definition',
                      {'history': sessions[si].log[:40], 'failing_event_index': evi, 'default_rule': repr(sessions[si].dflt)})
    ctx.cover['sessions'] = len(sessions)
    bad = ec.judge(ctx, cases)
    for c in bad:
        if c['kind'] == 'same':
            ctx.violation('inlining-changes-decision', 'replacing a rule: reference by the parenthesised text of its definition changed a decision',
                          {k: c.get(k) for k in ('_orig', '_inlined_rule', '_inlined_text', '_call', '_creds', '_dflt', 'a', 'b')})
        else:
            exp_log_only = False
            key = 'alias-decision'
            if c['obs']['o'] == 'raise':
                key = 'alias-raises:' + c['obs']['cls']
            ctx.violation(key, 'decision or probe log of a rule set with rule: references differs from the specification', ec.describe(c))
    ctx.cover.update({'graphs': n_graphs, 'inlining_pairs': n_inl, 'longest_alias_chain': max_chain,
                      'cases_with_probe_log': sum(1 for c in cases if c.get('obs', {}).get('log'))})
    for c in [x for x in cases if x['kind'] == 'enforce'][:6]:
        ctx.sample(ec.sample(c))
    ctx.assumptions += ['rule graphs are generated acyclic (references only to later names; the default rule is the last name or a leaf)']


def paste(text, tree, path, repl):
    """replace, in the canonical text of ``tree``, the reference at ``path``
    by ``repl`` - done on the text, independently of the tree substitution"""
    marker = ev.rule('\x00MARK\x00')
    marked = ev.rule_text(replace(tree, path, marker))
    assert marked.count('rule:\x00MARK\x00') == 1
    return marked.replace('rule:\x00MARK\x00', repl)
