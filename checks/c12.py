"""C12 - loading is idempotent and never mutates what the service
registered.

MC  : spec/MC_Loader.tla - action property Idempotent (a load that follows a
      load changes nothing) and LongLivedExact over all bounded histories,
      for deprecated and plain defaults.
S2C : interleavings of {load, forced load, enforce, edit file} across one to
      three real Enforcers, each with its own files and option values, all
      built from one shared list of RuleDefault/DeprecatedRule objects.
      Every enforcer's projection of the history is validated by
      spec/Trace_Loader.tla (so no enforcer is influenced by another); at
      every load the printed rule set is compared with the previous print
      when nothing changed in between, and an attribute-level snapshot of
      the caller-owned objects with the one taken before.
"""
import itertools

from harness import tlc
from checks import loader_common as lc
from checks.c10 import MC_CFG

MC_MERGE = MC_CFG.replace(' Overwrite = TRUE', ' Overwrite = FALSE').replace('INVARIANT LongLivedEqualsFresh\nINVARIANT LongLivedExact\n', '')


def run(ctx):
    q = ctx.quick
    for variant, en, n in ([('renamed', False, 3)] if q else [('renamed', False, 4), ('split', False, 4), ('same', False, 4), ('plain', True, 4)]):
        res = tlc.run('MC_Loader', MC_CFG % (n, 'TRUE' if en else 'FALSE', variant, 'TRUE'), coverage=not q, timeout=3400)
        ctx.add_mc('MC_Loader(MaxOps=%d,%s,enforce_new=%s)' % (n, variant, en), res)
    # merge mode (overwrite off): reload idempotence incl. forced reloads, cache coherence
    res = tlc.run('MC_Loader', MC_MERGE % (3 if q else 4, 'FALSE', 'renamed', 'TRUE'), coverage=not q, timeout=3400)
    ctx.add_mc('MC_Loader(overwrite off, MaxOps=%d, renamed)' % (3 if q else 4), res)
    rng = ctx.rng
    n_inter = 0
    ops = ['load', 'forceload', 'enforce', 'edit']
    plans = []
    # every interleaving of length <= L over (op, enforcer) for 2 enforcers, random ones for 3
    L = 3 if q else 4
    for n in range(1, L + 1):
        for seq in itertools.product([(o, e) for o in ops for e in (0, 1)], repeat=n):
            if q and n == 3 and rng.random() > 0.07:
                continue
            if not q and n == 4 and rng.random() > 0.1:
                continue
            plans.append((2, list(seq)))
    for i in range(25 if q else 600):
        k = rng.choice([1, 2, 3, 3])
        plans.append((k, [(rng.choice(ops), rng.randrange(k)) for _ in range(rng.choice([6, 10, 16]))]))
    # two enforcers over the same files: both have loaded, the main file (or a directory file)
    # changes, one loads first - the other must still see the change
    SHARED = []
    for edit in (('write', 'main', 'new'), ('write', 'main', 'old'), ('empty', 'main'), ('delete', 'main'), ('write', 'd1/a', 'new'), ('delete', 'd1/a'), ('delete', 'd1/b'),
                 ('replace', 'd1/a', 'old', False), ('replace', 'd1/b', 'new', True)):
        for order in ((0, 1), (1, 0)):
            SHARED.append([('load', 0), ('load', 1), ('edit!', edit), ('load', order[0]), ('load', order[1]), ('forceload', order[0]), ('load', order[1])])
    for seq in SHARED:
        plans.append(('shared', seq))
    by_cfg = {}
    for k, seq in plans:
        force_shared = k == 'shared'
        if force_shared:
            k = 2
        variant = rng.choice(['renamed', 'renamed', 'split', 'same', 'plain', 'renamed_same'])
        shared = lc.defaults_for(variant, rng.randrange(len(lc.STYLES)))
        # each enforcer has its own option values: enforce_new_defaults and the overwrite mode
        lives = [lc.Live(rng, variant, rng.random() < 0.5, defaults=shared, via=rng.choice(['enforce', 'rules']), overwrite=rng.random() < 0.7) for _ in range(k)]
        if k >= 2 and (force_shared or rng.random() < 0.4):
            # two of the enforcers read the same files (same paths), with their own option values
            lives[1].close()
            lives[1] = lc.Live(rng, variant, not lives[0].enforce_new, defaults=shared, via='enforce', overwrite=lives[0].overwrite, box=lives[0].box)
            lives[0].peers = lives[1].peers = [lives[0], lives[1]]
        try:
            # each enforcer starts from its own files
            for lv in lives:
                for w in ([('write', 'main', 'fixed'), ('write', 'd1/a', 'old'), ('write', 'd1/b', 'old')] if force_shared else
                          rng.sample([('write', 'main', 'new'), ('write', 'd1/a', 'old'), ('write', 'd2/a', 'alias'), ('write', 'd1/b', 'both')], rng.randint(0, 3))):
                    lv.step(w)
            for op, ei in seq:
                if op == 'edit!':
                    lives[0].step(ei)          # a prescribed file change (ei holds the operation)
                    continue
                lv = lives[ei]
                if op == 'edit':
                    lv.step(rng.choice(lc.FS_OPS))
                elif op == 'forceload':
                    lv.step(('load', True))
                else:
                    lv.step(('load', False))
            for lv in lives:
                lv.step(('load', False))
                lv.step(('load', False))
        finally:
            for lv in lives:
                lv.close()
        n_inter += 1
        for ei, lv in enumerate(lives):
            by_cfg.setdefault((variant, lv.enforce_new, lv.overwrite), []).append((lv.trace, k, seq, ei))
    # every textual style of the default check strings (top-level and / or / not / grouping) under
    # repeated recalculation: the merged check must not grow, with nothing overridden in the files
    for variant in ('renamed', 'same', 'split', 'renamed_same'):
        for style in range(len(lc.STYLES)):
            for en in (False, True):
                seq = [('load', False), ('load', True), ('load', True), ('write', 'd2/a', 'old' if variant == 'same' else 'fixed'), ('load', False),
                       ('touch', 'd2/a'), ('load', False), ('load', True)]
                if variant != 'same':
                    seq = seq[:3] + [('ignored', 'd1/.hidden'), ('load', False), ('load', True)]
                lv = lc.Live(rng, variant, en, defaults=lc.defaults_for(variant, style), via='rules')
                try:
                    for ev_ in seq:
                        lv.step(ev_)
                finally:
                    lv.close()
                n_inter += 1
                by_cfg.setdefault((variant, en, True), []).append((lv.trace, 1, seq, 0))
    # an override that was in the files at one load and is gone at the next (no main file, with a main
    # file, emptied / deleted / replaced): k loads give what one load of the current files gives
    for variant in ('renamed', 'split', 'same'):
        for en in (False, True):
            for seq in ([('write', 'd1/b', 'old'), ('load', False), ('empty', 'd1/b'), ('load', False), ('load', True)],
                        [('write', 'd2/a', 'old'), ('load', False), ('delete', 'd2/a'), ('load', False), ('load', False)],
                        [('write', 'd1/a', 'new'), ('load', False), ('write', 'd1/a', 'old'), ('load', False), ('empty', 'd1/a'), ('load', False)],
                        [('write', 'main', 'fixed'), ('write', 'd1/b', 'old'), ('load', False), ('replace', 'd1/b', 'new', False), ('load', False)],
                        [('write', 'main', 'old'), ('load', False), ('empty', 'main'), ('load', False), ('load', True)]):
                lv = lc.Live(rng, variant, en, via=rng.choice(['enforce', 'rules']))
                try:
                    for ev_ in seq:
                        lv.step(ev_)
                finally:
                    lv.close()
                n_inter += 1
                by_cfg.setdefault((variant, en, True), []).append((lv.trace, 1, seq, 0))
    for (variant, en, ow), items in sorted(by_cfg.items()):
        traces = [it[0] for it in items]
        for idx, why, step in lc.judge_traces(ctx, variant, en, traces, overwrite=ow):
            tr, k, seq, ei = items[idx]
            ctx.violation('%s:%s' % (why, variant), 'a history of loads across enforcers sharing their default objects is rejected: ' + why,
                          {'variant': variant, 'enforce_new_defaults': en, 'overwrite': ow, 'enforcers': k, 'interleaving': seq, 'this_enforcer': ei,
                           'rejected_at_event': step, 'why': why, 'trace': tr[:step]})
        if len(ctx.samples) < 4:
            ctx.sample({'variant': variant, 'enforce_new_defaults': en, 'enforcers': items[0][1], 'interleaving': items[0][2], 'trace_of_enforcer_0': items[0][0][:6]})
    ctx.cover.update({'interleavings': n_inter, 'exhaustive_two_enforcer_length': L, 'enforcer_traces': sum(len(v) for v in by_cfg.values())})
    ctx.assumptions += ['each enforcer has its own directory tree; all are constructed from the same Python RuleDefault/DeprecatedRule objects']
