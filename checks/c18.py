"""C18 - policy-file rewriting tools and advice preserve every decision.

MC  : spec/MC_Tools.tla - every main policy file over {registered name,
      second successor, deprecated name, unknown name} x {absent, equal to
      the default, different rule, alias} (+ one directory file) against
      the default sets plain / renamed / split / same-name change:
      Convert, Upgrade, Generate preserve the decisions of every surviving
      name, what Redundant reports can be deleted.  Negative control: the
      upgrade algorithm as originally shipped violates it on alias files.
S2C : the enumerated files through the real tools
      (convert_policy_json_to_yaml, upgrade_policy, _generate_policy,
      _list_redundant with the stevedore look-ups replaced as the
      repository's own tests do), rule values spelled as strings, textual
      variants, list-of-lists and with embedded double quotes; Enforcers on
      the operator's policy and on the tool's output are compared on every
      surviving name and role; judged by spec/Conf_Tools.tla.
"""
import contextlib
import io
import itertools
import json
import os
import shutil
import tempfile
from unittest import mock

import yaml

from harness import tlc

NAMES = ['n', 'n2', 'o', 'u']
ROLES = ['dflt', 'old', 'x', 'y', 'nobody']
# concrete spelling of the abstract role names (gamma): 'x' carries a character outside the BMP
SPELL = {'x': 'x\U0001f511', 'y': 'y-é'}
VARIANTS = ['plain', 'renamed', 'split', 'same']

MC_CFG = """SPECIFICATION Spec
CONSTANTS
 Variant = "%s"
 Names <- TNames
 MainFile = "main"
 Dirs <- TDirs
 Loadable <- TLoadable
 Ignored <- TIgnored
 Defaults <- TDefaults
INVARIANT InvConvertPreserves
INVARIANT InvUpgradePreserves
INVARIANT InvGeneratePreserves
INVARIANT InvRedundantDeletable
CHECK_DEADLOCK FALSE
"""
NEG_CFG = MC_CFG.replace('INVARIANT InvConvertPreserves\n', 'INVARIANT NegShippedUpgrade\n')
CONF_CFG = """SPECIFICATION CSpec
CONSTANTS
 Variant = "%s"
 Names <- TNames
 MainFile = "main"
 Dirs <- TDirs
 Loadable <- TLoadable
 Ignored <- TIgnored
 Defaults <- TDefaults
INVARIANT Conforms
CHECK_DEADLOCK FALSE
"""


def defaults_for(variant):
    from oslo_policy import policy
    dep = policy.DeprecatedRule('o', 'role:old', deprecated_reason='r', deprecated_since='s')
    mk = policy.DocumentedRuleDefault
    ops = [{'path': '/x', 'method': 'GET'}]
    if variant == 'plain':
        return [policy.RuleDefault('n', 'role:dflt', description='plain')]
    if variant == 'renamed':
        return [mk('n', 'role:dflt', 'the new one', ops, deprecated_rule=dep)]
    if variant == 'same':
        return [mk('n', 'role:dflt', 'changed', ops, deprecated_rule=policy.DeprecatedRule('n', 'role:old', deprecated_reason='r', deprecated_since='s'))]
    return [mk('n', 'role:dflt', 'first', ops, deprecated_rule=dep), policy.RuleDefault('n2', 'role:old', deprecated_rule=dep)]


def default_body(variant, n):
    if n == 'n':
        return {'k': 'roles', 'r': ['dflt']}
    if n == 'n2' and variant == 'split':
        return {'k': 'roles', 'r': ['old']}
    return None


def value_options(variant, n):
    opts = [None, {'k': 'roles', 'r': ['x']}, {'k': 'any'}]
    if default_body(variant, n):
        opts.append(default_body(variant, n))
    if n == 'o':
        opts += [{'k': 'alias', 'n': 'n'}, {'k': 'roles', 'r': ['old']}]
    elif variant != 'plain' and {'k': 'roles', 'r': ['old']} not in opts:
        opts.append({'k': 'roles', 'r': ['old']})         # an override under the current name that equals the PREVIOUS default
    return opts


def conflicting(variant, c):
    dep_pairs = {'renamed': [('o', 'n')], 'split': [('o', 'n'), ('o', 'n2')]}.get(variant, [])
    return any(c.get(o) and c.get(n) for o, n in dep_pairs)


def spell(body, rng, allow_list=True):
    """gamma: abstract body -> a rule value (string variants, list-of-lists,
    embedded double quote)"""
    if body['k'] == 'alias':
        return rng.choice(['rule:' + body['n'], '(rule:%s)' % body['n']])
    # checks that hold for every request of the harness (target zz = 'q', bs = one backslash), written with
    # double quotes / a backslash: text that has to survive being re-quoted by a tool
    TRUE_Q = ['"q":%(zz)s', "'q':%(zz)s", '"\\\\":%(bs)s']
    if body['k'] == 'any':
        if allow_list is not None and rng.random() < 0.4:
            t = rng.choice(TRUE_Q)
            return rng.choice([t, [[t]], [t]]) if allow_list else t
        return rng.choice(['', '@', []]) if allow_list else rng.choice(['', '@'])
    leaves = ['role:' + SPELL.get(r, r) for r in body['r']]
    if not leaves:
        return '!'
    style = rng.randrange(8)
    if style == 6 and allow_list:
        t = rng.choice(TRUE_Q)
        return [[x, t] for x in leaves]                     # list-of-lists with a member that needs quoting
    if style == 7 and allow_list is not None:
        t = rng.choice(TRUE_Q)
        return ' or '.join('(%s and %s)' % (t, x) for x in leaves)
    if style == 0 and allow_list:
        return [[x] for x in leaves]
    if style == 1 and allow_list:
        return list(leaves)
    if style == 2 and len(leaves) == 1:
        return '(%s)' % leaves[0]
    if style == 3 and len(leaves) == 1 and allow_list is not None:
        return leaves[0] + ' or \'a"b\':%(zz)s'          # same decisions, text with a double quote
    return ' or '.join(leaves)


def spell_exact(body, rng):
    """variants that print exactly like the default (str(check) equal)"""
    leaf = 'role:' + body['r'][0]
    return rng.choice([leaf, '(%s)' % leaf, [[leaf]], [leaf], '  %s ' % leaf])


def render_file(content, variant, rng, fmt):
    d = {}
    for n, b in content.items():
        if b is None:
            continue
        if default_body(variant, n) == b:
            d[n] = spell_exact(b, rng)
        else:
            d[n] = spell(b, rng)
    if fmt == 'json':
        return json.dumps(d, indent=1)
    return yaml.safe_dump(d, default_flow_style=False) if d else '{}'


def enforcer_on(main_path, dirs, variant):
    from oslo_config import cfg
    from oslo_policy import policy
    conf = cfg.ConfigOpts()
    conf([], project='verif', default_config_files=[], default_config_dirs=[])
    e = policy.Enforcer(conf, policy_file=main_path)
    conf.set_override('policy_dirs', dirs, group='oslo_policy')
    e.suppress_deprecation_warnings = True
    e.register_defaults(defaults_for(variant))
    return e


def decisions(e):
    out = {}
    for n in NAMES:
        out[n] = [r for r in ROLES if e.enforce(n, {'zz': 'q', 'bs': '\\'}, {'roles': [SPELL.get(r, r)]})]
    return out


def run_tool(tool, variant, main, dfile, rng):
    from oslo_config import cfg
    from oslo_policy import generator
    d = tempfile.mkdtemp(prefix='verif_tool_')
    c = {'tool': tool, 'main': [[n, b] for n, b in main.items() if b], 'dfile': [[n, b] for n, b in dfile.items() if b],
         'before': {n: [] for n in NAMES}, 'after': {n: [] for n in NAMES}, 'crashed': 0, 'reported': [], 'roles': ROLES}
    try:
        # the role 'x' is spelled with a character beyond the BMP: printable (an emoji), or not (a tag
        # character, a private-use code point of plane 16)
        SPELL['x'] = 'x' + rng.choice(['\U0001f511', '\U000e0041', '\U0010fffd', '\U0001f511\U000e0062'])
        fmt = 'json' if tool == 'convert' else rng.choice(['json', 'yaml'])
        mp = os.path.join(d, 'policy.' + fmt)
        text = render_file(main, variant, rng, fmt)
        open(mp, 'w').write(text)
        c['_main_text'] = text
        dd = os.path.join(d, 'policy.d')
        os.makedirs(dd)
        if any(dfile.values()):
            dtext = render_file(dfile, variant, rng, 'yaml')
            open(os.path.join(dd, 'a.yaml'), 'w').write(dtext)
            c['_dfile_text'] = dtext
        c['before'] = decisions(enforcer_on(mp, [dd], variant))
        out = os.path.join(d, 'out.yaml')
        defaults = defaults_for(variant)
        try:
            with mock.patch('oslo_policy.generator.get_policies_dict', return_value={'ns': defaults}):
                if tool == 'convert':
                    generator.convert_policy_json_to_yaml(args=['--namespace', 'ns', '--policy-file', mp, '--output-file', out], conf=cfg.ConfigOpts())
                    c['after'] = decisions(enforcer_on(out, [dd], variant))
                elif tool == 'upgrade':
                    ofmt = rng.choice(['yaml', 'json'])
                    if rng.random() < 0.3:
                        out = mp              # upgraded in place: the output file IS the policy file
                        c['_in_place'] = True
                    generator.upgrade_policy(args=['--policy', mp, '--namespace', 'ns', '--output-file', out, '--format', ofmt], conf=cfg.ConfigOpts())
                    c['after'] = decisions(enforcer_on(out, [dd], variant))
                else:
                    live = enforcer_on(mp, [dd], variant)
                    with mock.patch('oslo_policy.generator._get_enforcer', return_value=live):
                        if tool == 'generate':
                            generator._generate_policy('ns', out)
                            # the merged file replaces the operator's files
                            empty = os.path.join(d, 'empty.d')
                            os.makedirs(empty)
                            c['after'] = decisions(enforcer_on(out, [empty], variant))
                        else:
                            if rng.random() < 0.5:
                                # the tools are run one after the other on the same enforcer
                                generator._generate_policy('ns', os.path.join(d, 'ignored.yaml'))
                            buf = io.StringIO()
                            with contextlib.redirect_stdout(buf):
                                generator._list_redundant('ns')
                            rep = []
                            for ln in buf.getvalue().splitlines():
                                rep.append(ln.split('"')[1])
                            c['reported'] = rep
                            # delete what was reported from the operator's files
                            for p in (mp, os.path.join(dd, 'a.yaml')):
                                if os.path.exists(p):
                                    data = yaml.safe_load(open(p).read()) or {}
                                    data = {k: v for k, v in data.items() if k not in rep}
                                    open(p, 'w').write(json.dumps(data) if p.endswith('json') else (yaml.safe_dump(data) if data else '{}'))
                            c['after'] = decisions(enforcer_on(mp, [dd], variant))
            if os.path.exists(out):
                c['_output'] = open(out).read()
        except Exception as ex:
            c['crashed'] = 1
            c['_exc'] = '%s: %s' % (type(ex).__name__, ex)
    finally:
        shutil.rmtree(d, ignore_errors=True)
    return c


def run(ctx):
    q = ctx.quick
    for v in VARIANTS:
        res = tlc.run('MC_Tools', MC_CFG % v, coverage=not q, timeout=3000)
        ctx.add_mc('MC_Tools(%s)' % v, res)
    # negative control: the shipped upgrade algorithm must be caught on the renamed variant
    neg = tlc.run('MC_Tools', NEG_CFG % 'renamed', timeout=3000)
    ctx.states += neg.distinct
    ctx.transitions += neg.generated
    if not any(v['name'] == 'NegShippedUpgrade' for v in neg.violations):
        raise RuntimeError('negative control failed: TLC did not find the alias counterexample for the shipped upgrade algorithm')
    ctx.note('negative control ok: UpgradeAsShipped violates preservation on {"o": "rule:n"} (TLC counterexample found)')
    rng = ctx.rng
    by_variant = {}
    for variant in VARIANTS:
        opts = [value_options(variant, n) for n in NAMES]
        mains = [dict(zip(NAMES, combo)) for combo in itertools.product(*opts)]
        mains = [m for m in mains if not conflicting(variant, m)]
        cases = []
        for main in mains:
            # (a file that only restates defaults is converted to a file of comments only: always run)
            restates = any(main.values()) and all(b is None or default_body(variant, n) == b for n, b in main.items())
            for tool in ('convert', 'upgrade'):
                if q and rng.random() > 0.5 and not restates:
                    continue
                cases.append(run_tool(tool, variant, main, {n: None for n in NAMES}, rng))
            # generator / redundancy: main file + directory override, each name in at most one file,
            # no operator override under a deprecated (renamed-away) name
            if main.get('o') and variant in ('renamed', 'split'):
                continue
            for dn, db in [(None, None), ('n', {'k': 'roles', 'r': ['y']}), ('n', {'k': 'roles', 'r': ['dflt']}), ('u', {'k': 'roles', 'r': ['y']}),
                           ('n2', {'k': 'roles', 'r': ['y']})]:
                if dn and main.get(dn):
                    continue
                if q and rng.random() > 0.4:
                    continue
                dfile = {n: (db if n == dn else None) for n in NAMES}
                for tool in ('generate', 'redundant'):
                    cases.append(run_tool(tool, variant, main, dfile, rng))
        by_variant[variant] = cases
    n = 0
    for variant, cases in by_variant.items():
        rejected, st = tlc.judge_cases('Conf_Tools', [{k: v for k, v in c.items() if not k.startswith('_')} for c in cases],
                                       cfg_extra='', invariant='Conforms', timeout=3000,
                                       consts=None) if False else _judge(variant, cases)
        n += len(cases)
        ctx.traces += len(cases)
        from harness import canary
        from checks import canaries
        canary.probe(ctx, 'Conf_Tools', [c for i, c in enumerate(cases, 1) if i not in set(rejected)], canaries.tools,
                     lambda cs: {i - 1 for i in _judge(variant, cs)[0]})
        for i in rejected:
            c = cases[i - 1]
            shape = ','.join('%s=%s' % (nm, b['k'] if b['k'] != 'roles' else '+'.join(b['r'])) for nm, b in c['main'] + c['dfile'])
            key = '%s:%s:%s' % (c['tool'], 'crashed' if c['crashed'] else 'decisions-changed', variant)
            ctx.violation(key, 'a policy-rewriting tool did not preserve the decisions of the policy it was given (or did not complete)',
                          {'tool': c['tool'], 'variant': variant, 'file_shape': shape, 'main_file': c.get('_main_text'), 'directory_file': c.get('_dfile_text'),
                           'tool_output': c.get('_output'), 'before': c['before'], 'after': c['after'], 'reported': c['reported'], 'exception': c.get('_exc')})
        for c in cases[:2]:
            ctx.sample({'tool': c['tool'], 'variant': variant, 'main_file': c.get('_main_text'), 'output': (c.get('_output') or '')[:400], 'before': c['before'], 'after': c['after']})
    ctx.exhaustive = not q
    ctx.cover.update({'tool_runs': n, 'by_tool': {t: sum(1 for cs in by_variant.values() for c in cs if c['tool'] == t) for t in ('convert', 'upgrade', 'generate', 'redundant')}})
    ctx.assumptions += ['default configuration (enforce_new_defaults on); files that define both a deprecated name and a successor are excluded, as the statement does',
                        'stevedore look-ups are replaced from the harness (get_policies_dict / _get_enforcer), as the repository\'s own tests do']


def _judge(variant, cases):
    import tempfile as tf
    stripped = [{k: v for k, v in c.items() if not k.startswith('_')} for c in cases]
    fd, path = tf.mkstemp(prefix='verif_cases_', suffix='.json')
    try:
        with os.fdopen(fd, 'w') as f:
            json.dump(stripped, f)
        res = tlc.run('Conf_Tools', CONF_CFG % variant, env={'VERIF_CASES': path}, cont=True, timeout=3000)
    finally:
        os.unlink(path)
    import re
    bad = set()
    for v in res.violations:
        if v['name'] != 'Conforms':
            raise tlc.TLCError('unexpected violation %s\n%s' % (v['name'], v['text'][:1500]))
        bad.add(int(re.findall(r'\bcid = (\d+)', v['text'])[-1]))
    if res.distinct < len(cases):
        raise tlc.TLCError('Conf_Tools: %d states for %d cases' % (res.distinct, len(cases)))
    return sorted(bad), {}
