"""C10 - a long-lived enforcer always decides as a freshly started one would.

MC  : spec/MC_Loader.tla - every history up to MaxOps modification-time
      ticks of {write (4 content kinds), empty, touch, delete} on the main
      file and three directory files, changes of ignored entries, loads and
      forced loads: after every load the long-lived loader state equals what
      the loader computes from scratch, which equals the declarative
      layering; cache coherence; reload idempotence.
C2S : exhaustive short histories and seeded random histories up to 40 steps
      replayed on real files (mtimes set with os.utime to the specification
      clock) against a real long-lived Enforcer and, at every load, a newly
      constructed one; the recorded trace is validated by
      spec/Trace_Loader.tla action by action.
"""
from harness import tlc
from checks import loader_common as lc

MC_CFG = """SPECIFICATION Spec
CONSTANTS
 MaxOps = %d
 EnforceNew = %s
 Variant = "%s"
 StartWithMain = %s
 Overwrite = TRUE
 StartReg = TRUE
 Names <- MCNames
 MainFile = "main"
 Dirs <- MCDirs
 Loadable <- MCLoadable
 Ignored <- MCIgnored
 Defaults <- MCDefaults
CONSTRAINT Bounded
INVARIANT FreshIsLayered
INVARIANT FreshExact
INVARIANT LongLivedEqualsFresh
INVARIANT LongLivedExact
INVARIANT CacheCoherent
PROPERTY Idempotent
CHECK_DEADLOCK FALSE
"""


def mc_random(ctx, enforce_new, variant, num, depth):
    """long random behaviours of the same specification (TLC -simulate): every invariant is
    evaluated in every state of every behaviour; no bound on the number of file changes"""
    cfg = (MC_CFG % (10 ** 6, 'TRUE' if enforce_new else 'FALSE', variant, 'TRUE')).replace('CONSTRAINT Bounded\n', '').replace(' StartReg = TRUE', ' StartReg = FALSE')
    res = tlc.run('MC_Loader', cfg, simulate='num=%d' % num, depth=depth, timeout=3400, seed=ctx.seed + 1)
    ctx.add_mc('MC_Loader/simulate(%s,enforce_new=%s,behaviours=%dx8,depth=%d)' % (variant, enforce_new, num, depth), res)
    return res


def mc(ctx, maxops, enforce_new, variant, start_main, start_reg=True):
    cfg = MC_CFG % (maxops, 'TRUE' if enforce_new else 'FALSE', variant, 'TRUE' if start_main else 'FALSE')
    if not start_reg:
        cfg = cfg.replace(' StartReg = TRUE', ' StartReg = FALSE')
    res = tlc.run('MC_Loader', cfg,
                  coverage=not ctx.quick, timeout=3400)
    ctx.add_mc('MC_Loader(MaxOps=%d,%s,enforce_new=%s,start_main=%s,defaults %s)' % (maxops, variant, enforce_new, start_main, 'registered first' if start_reg else 'registered late'), res)
    return res


def random_history(rng, n):
    h = []
    if rng.random() < 0.6:
        h.append(('write', 'main', rng.choice(lc.KINDS)))
    for _ in range(n):
        r = rng.random()
        if r < 0.06:
            h.append(('register',))          # a default registered after the enforcer has been in use
        elif r < 0.45:
            h.append(rng.choice(lc.FS_OPS))
        elif r < 0.9:
            h.append(('load', False))
        else:
            h.append(('load', True))
    h.append(('load', False))
    return h


def key_of(why, tr, step):
    # the last file-system operation before the rejected load names the scenario
    ops = [e['op'] + ':' + e.get('f', '') for e in tr[:step - 1] if e['op'] != 'load']
    return '%s after %s' % (why, ops[-1] if ops else 'start')


def run(ctx):
    q = ctx.quick
    if q:
        mc(ctx, 3, False, 'renamed', True)
        mc(ctx, 3, True, 'plain', False)
        mc(ctx, 2, False, 'split', True, start_reg=False)
    else:
        for variant in ('plain', 'renamed', 'split'):
            for en in (False, True):
                mc(ctx, 4, en, variant, True)
        mc(ctx, 4, False, 'renamed', False)
        for variant in ('renamed', 'split', 'plain'):
            mc_random(ctx, variant != 'plain', variant, 1500, 24)
        mc(ctx, 3, False, 'split', True, start_reg=False)
        mc(ctx, 3, True, 'renamed', False, start_reg=False)
    rng = ctx.rng
    groups = {}
    n_hist = 0

    def add(variant, en, h):
        groups.setdefault((variant, en), []).append(h)

    # exhaustive short histories: every FS op sequence of length <= depth, a load after each op
    depth = 2 if q else 3
    for h in lc.all_histories(depth, lc.FS_OPS):
        if q and len(h) == 2 and rng.random() > 0.2:
            continue
        if not q and len(h) == 3 and rng.random() > 0.05:
            continue
        start = [('write', 'main', 'new'), ('load', False)] if rng.random() < 0.6 else [('load', False)]
        inter = []
        for op in h:
            inter.append(op)
            if rng.random() < 0.8:
                inter.append(('load', rng.random() < 0.1))
        inter.append(('load', False))
        add(rng.choice(['plain', 'renamed', 'renamed', 'split', 'same']), rng.random() < 0.5, start + inter)
    # the scenarios the statement names explicitly
    named = [
        # a default registered after the first use of the enforcer is merged at the next load
        [('load', False), ('register',), ('load', False), ('write', 'main', 'old'), ('load', False)],
        [('write', 'main', 'new'), ('load', False), ('register',), ('load', False), ('delete', 'main'), ('load', False)],
        # byte-identical content written again (same bytes, newer mtime; re-created after a delete)
        [('write', 'main', 'fixed'), ('load', False), ('delete', 'main'), ('load', False), ('write', 'main', 'fixed'), ('load', False)],
        [('write', 'main', 'fixed'), ('write', 'd1/a', 'fixed'), ('load', False), ('delete', 'd1/a'), ('load', False), ('write', 'd1/a', 'fixed'), ('load', False),
         ('write', 'main', 'fixed'), ('load', False)],
        [('write', 'main', 'new'), ('load', False), ('write', 'd1/a', 'new'), ('load', False), ('write', 'main', 'both'), ('load', False),
         ('delete', 'd1/a'), ('load', False)],
        [('write', 'main', 'new'), ('load', False), ('delete', 'main'), ('load', False), ('load', False), ('write', 'main', 'old'), ('load', False)],
        [('load', False), ('write', 'd2/a', 'new'), ('load', False), ('delete', 'd2/a'), ('load', False)],
        [('write', 'main', 'old'), ('write', 'd1/b', 'new'), ('write', 'd1/a', 'new'), ('load', False), ('empty', 'd1/b'), ('load', False),
         ('touch', 'main'), ('load', False), ('empty', 'main'), ('load', False)],
    ]
    named += [
        # rename into place: the file's own mtime does not advance, the directory's does
        [('write', 'd1/a', 'new'), ('load', False), ('replace', 'd1/a', 'new', False), ('load', False), ('load', True)],
        [('write', 'main', 'new'), ('write', 'd1/b', 'old'), ('load', False), ('replace', 'd1/b', 'old', True), ('load', False), ('touch', 'main'), ('load', False)],
        [('write', 'd2/a', 'new'), ('write', 'd1/a', 'new'), ('load', False), ('replace', 'd1/a', 'old', False), ('replace', 'd2/a', 'new', True), ('load', False)],
    ]
    for h in named:
        for variant in lc.VARIANTS:
            for en in (False, True):
                add(variant, en, h)
    for i in range(40 if q else 1500):
        add(rng.choice(lc.VARIANTS), rng.random() < 0.5, random_history(rng, rng.choice([8, 15, 25, 40])))
    # the same named scenarios with a usable default rule configured (policy_default_rule names a registered
    # helper policy): names no layer defines are decided by it - by the long-lived enforcer as by a new one
    groups_dr = {}
    for hi, h in enumerate(named):
        for vi, variant in enumerate(('plain', 'renamed', 'split', 'same')):
            groups_dr.setdefault((variant, (hi + vi) % 2 == 0), []).append(h)
    longest = 0
    for (variant, en), hs in sorted(groups.items()):
        traces = []
        for h in hs:
            tr = lc.run_history(rng, variant, en, h, via=rng.choice(['enforce', 'enforce', 'rules', 'check']), late=any(op[0] == 'register' for op in h))
            traces.append(tr)
            longest = max(longest, len(tr))
        n_hist += len(traces)
        for idx, why, step in lc.judge_traces(ctx, variant, en, traces):
            tr = traces[idx]
            ctx.violation(key_of(why, tr, step), 'history of file changes and loads rejected by the loader specification: ' + why,
                          {'variant': variant, 'enforce_new_defaults': en, 'rejected_at_event': step, 'why': why,
                           'trace': tr[:step], 'history': hs[idx]})
        if len(ctx.samples) < 6 and traces:
            ctx.sample({'variant': variant, 'enforce_new_defaults': en, 'trace': traces[0][:8]})
    for (variant, en), hs in sorted(groups_dr.items()):
        traces = [lc.run_history(rng, variant, en, h, via=['enforce', 'rules', 'check'][i % 3], late=any(op[0] == 'register' for op in h), dr=True)
                  for i, h in enumerate(hs)]
        n_hist += len(traces)
        for idx, why, step in lc.judge_traces(ctx, variant, en, traces):
            tr = traces[idx]
            ctx.violation('default-rule:' + key_of(why, tr, step), 'history of file changes and loads (a default rule configured) rejected by the loader specification: ' + why,
                          {'variant': variant, 'enforce_new_defaults': en, 'rejected_at_event': step, 'why': why, 'policy_default_rule': 'hlp (registered: role:dflt)',
                           'trace': tr[:step], 'history': hs[idx]})
    ctx.cover['histories_with_default_rule'] = sum(len(v) for v in groups_dr.values())
    ctx.cover.update({'histories': n_hist, 'exhaustive_fs_depth': depth, 'longest_trace_events': longest,
                      'fs_operation_alphabet': len(lc.FS_OPS)})
    ctx.assumptions += ['every change advances modification times (the statement\'s premise): the harness sets file and directory mtimes with os.utime to the specification clock',
                        'policy directories themselves are never removed; policy_default_rule is either left at its (undefined) default or names a registered helper policy']
