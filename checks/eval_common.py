"""Recording real Enforcer.enforce / authorize executions as cases for
spec/Conf_Eval.tla."""
import os
import copy

from harness import ev, tlc


import logging


def set_debug(on):
    lg = logging.getLogger('oslo_policy.policy')
    if on:
        logging.disable(logging.NOTSET)
        lg.setLevel(logging.DEBUG)
        if not lg.handlers:
            lg.addHandler(logging.NullHandler())
        lg.propagate = False
    else:
        lg.setLevel(logging.WARNING)
        logging.disable(logging.CRITICAL)



class Opq:
    pass


def _snapshot(v):
    try:
        return copy.deepcopy(v)
    except Exception:
        return repr(v)


def fingerprint(v):
    """structure of a value; non-JSON leaves by identity (an opaque object is
    unchanged iff it is still the same object)"""
    if isinstance(v, dict):
        return ('d', tuple((k, fingerprint(x)) for k, x in v.items()))
    if isinstance(v, (list, tuple)):
        return ('l', tuple(fingerprint(x) for x in v))
    if isinstance(v, (str, int, float, bool, type(None))):
        return ('s', type(v).__name__, v)
    return ('o', id(v))


def dflt_spec(dflt):
    if dflt is None:
        return {'t': 'name', 'v': 'default'}
    if dflt[0] in ('name', 'opt'):
        return {'t': 'name', 'v': dflt[1]} if dflt[1] else {'t': 'unset'}
    return {'t': 'check', 'v': ev.strip(dflt[1])}


def enforce_case(rules, call, target, creds, dflt=None, registered=(), enforce_scope=True, check_scopes=(),
                 http=None, checklog=0, rng=None, want='', creds_obj=None, enforcer=None, extra=None, via='rules_obj', target_obj=None,
                 runner=None):
    """rules: list of (name, tree).  call: dict(by, name|tree, doraise, custom,
    authorize, credskind[, xargs, xkw]).  target/creds: Python values (creds
    may be replaced by ``creds_obj`` - e.g. a RequestContext - for the real
    call while ``creds`` stays the abstract dict the spec sees)."""
    from oslo_policy import _parser
    texts = {n: ev.rule_text(t, rng) for n, t in rules}
    reg = [(n, list(sc), ev.rule_text(dict(rules)[n]) if n in dict(rules) else '!') for n, sc in registered]
    e = enforcer or ev.make_enforcer(texts, dflt, reg, enforce_scope, via)
    tgt = target_obj if target_obj is not None else _snapshot(target)
    before = fingerprint(tgt)
    crd = creds_obj if creds_obj is not None else _snapshot(creds)
    xargs = call.get('xargs', [])
    xkw = call.get('xkw', {})
    if call['by'] == 'check':
        what = _parser.parse_rule(ev.rule_text(call['tree'], rng))
        if check_scopes:
            what.scope_types = list(check_scopes)
    else:
        what = call['name']
    fn = e.authorize if call.get('authorize') else e.enforce
    kwargs = {}
    args = [what, tgt, crd]
    if call.get('doraise') or call.get('custom'):
        args.append(bool(call.get('doraise')))
        if call.get('custom'):
            args.append(ev.CUSTOM_CLASSES[call.get('excls', 0) % len(ev.CUSTOM_CLASSES)])
            args.extend(xargs)
            kwargs.update(xkw)
        elif xargs or xkw:
            # extra arguments but no exception class: they are ignored, PolicyNotAuthorized names the policy
            if xargs:
                args.append(None)
                args.extend(xargs)
            kwargs.update(xkw)
    try:
        obs = ev.observe((lambda: runner(lambda: fn(*args, **kwargs))) if runner else (lambda: fn(*args, **kwargs)))
    finally:
        if enforcer is None and hasattr(e, '_verif_restore'):
            e._verif_restore()
    obs['log'] = [list(x) for x in ev.PROBE_LOG]
    raw_type = ev.LAST_RAW[0] if ev.LAST_RAW else None
    obs['named'] = 1 if (obs['cls'] == 'PolicyNotAuthorized' and call['by'] == 'name' and
                         obs['msg'] == '%s is disallowed by policy' % call['name']) or \
        (obs['cls'] == 'PolicyNotAuthorized' and call['by'] == 'check') else 0
    obs['argsok'] = 1 if obs['cls'] == 'Custom' and obs.get('xargs') == list(xargs) and obs.get('xkw') == sorted(xkw.items()) and \
        obs.get('exact') == ev.CUSTOM_CLASSES[call.get('excls', 0) % len(ev.CUSTOM_CLASSES)].__name__ else 0
    obs.pop('exact', None)
    obs['target_unchanged'] = 1 if fingerprint(tgt) == before else 0
    obs.pop('xargs', None)
    obs.pop('xkw', None)
    strs = []
    ev.all_text(target, strs)
    ev.all_text(creds, strs)
    for n, t in rules:
        ev.tree_strings(t, strs)
    if call['by'] == 'check':
        ev.tree_strings(call['tree'], strs)
    if dflt and dflt[0] == 'check':
        ev.tree_strings(dflt[1], strs)
    c = {
        'kind': 'enforce', 'want': want,
        'st': {'rules': [[n, ev.strip(t)] for n, t in rules], 'dflt': dflt_spec(dflt),
               'registered': [[n, list(sc)] for n, sc in registered],
               'enforce_scope': 1 if enforce_scope else 0, 'check_scopes': list(check_scopes)},
        'call': {'by': call['by'], 'name': call.get('name', ''), 'tree': ev.strip(call.get('tree', ev.F)),
                 'doraise': 1 if call.get('doraise') else 0, 'custom': 1 if call.get('custom') else 0,
                 'authorize': 1 if call.get('authorize') else 0, 'credskind': call.get('credskind', 'map')},
        'target': ev.enc(target), 'creds': ev.enc(creds) if call.get('credskind', 'map') == 'map' else ev.enc({}),
        'lowmap': ev.lowmap_for(*strs), 'http': http or {'fault': 'none', 'body': []},
        'obs': obs, 'checklog': checklog,
        '_texts': texts, '_target': repr(target), '_creds': repr(creds), '_call': {k: (v if k != 'tree' else ev.rule_text(v)) for k, v in call.items()},
        '_dflt': repr(dflt) if not (dflt and dflt[0] == 'check') else 'check:' + ev.rule_text(dflt[1]),
        '_registered': [list(r) for r in reg], '_enforce_scope': enforce_scope, '_via': via, '_raw_type': raw_type,
    }
    if extra:
        c.update(extra)
    return c


def interference_cases(rules, name, a, b, want, rng, quick, dflt=('opt', None), funcs=('__call__', '_find_in_dict', '_check', '_interpolate', '_format_match')):
    """Non-interference: call A (target, creds) is suspended at a line event inside the evaluation of its
    checks while call B (another target / credentials, same enforcer, same check objects) runs completely;
    A's outcome is judged by the specification on A's own arguments."""
    from harness import core, sched
    texts = {n: ev.rule_text(t) for n, t in rules}
    e = ev.make_enforcer(texts, dflt)
    prof = sched.line_profile(core.REPO, lambda: e.enforce(name, _snapshot(a[0]), _snapshot(a[1])))
    ks = [i + 1 for i, (fn, ln) in enumerate(prof) if fn in funcs]
    if quick and len(ks) > 10:
        ks = sorted(rng.sample(ks, 10))
    out = []
    for k in ks:
        def runner(thunk, k=k):
            return sched.interleaved(core.REPO, k, thunk, lambda: e.enforce(name, _snapshot(b[0]), _snapshot(b[1])))
        out.append(enforce_case(rules, {'by': 'name', 'name': name}, a[0], a[1], dflt=dflt, want=want, enforcer=e, runner=runner,
                                extra={'_concurrent_call': 'suspended at line event %d (%s line %s) while enforce(%r, %r, %r) ran' % (k, prof[k - 1][0], prof[k - 1][1], name, b[0], b[1])}))
    return out


def strip_case(c):
    return {k: v for k, v in c.items() if not k.startswith('_')}


def judge(ctx, cases, chunk=20000, timeout=3000):
    rejected, st = tlc.judge_cases('Conf_Eval', [strip_case(c) for c in cases], chunk=chunk, timeout=timeout)
    ctx.traces += len(cases)
    ctx.cover['conformance_tlc_states'] = ctx.cover.get('conformance_tlc_states', 0) + st['states']
    ctx.cover['conformance_tlc_wall_s'] = round(ctx.cover.get('conformance_tlc_wall_s', 0) + st['wall'], 1)
    rej = set(rejected)
    from harness import canary
    from checks import canaries
    canary.probe(ctx, 'Conf_Eval', [c for i, c in enumerate(cases, 1) if i not in rej], canaries.evalcase,
                 canary.by_cases('Conf_Eval', strip_case))
    return [cases[i - 1] for i in rejected]


def describe(c):
    d = {k: c.get(k) for k in ('_texts', '_dflt', '_via', '_registered', '_enforce_scope', '_call', '_target', '_creds', 'obs', 'want', '_concurrent_call', '_session', '_list_value')}
    d['reproduce'] = ('build an Enforcer with rules %r (default rule %s), then call %s' % (c.get('_texts'), c.get('_dflt'), c.get('_call')))
    return d


def sample(c):
    return {k: c.get(k) for k in ('_texts', '_dflt', '_call', '_target', '_creds', 'obs')}


class Session:
    """A long-lived real Enforcer whose rule store is changed through the public
    API between enforcement calls; the recorded session is validated by
    spec/Trace_Store.tla (the store is a state machine there)."""

    def __init__(self, rules, dflt=None, registered=(), enforce_scope=True, via='rules_obj', file_backed=False):
        self.dflt = dflt
        self.registered = list(registered)
        self.enforce_scope = enforce_scope
        texts = {n: ev.rule_text(t) for n, t in rules}
        reg = [(n, list(sc), texts.get(n, '!')) for n, sc in registered]
        self.file_backed = file_backed
        self.tmp = None
        if file_backed:
            # the start rules come from a policy file the enforcer loads itself (use_conf on: every call goes
            # through load_rules, which also runs the rule-set sanity check); later changes are merges
            import json as _json
            import tempfile
            from oslo_config import cfg
            from oslo_policy import policy, _parser
            self.tmp = tempfile.mkdtemp(prefix='verif_sess_')
            path = os.path.join(self.tmp, 'policy.json')
            with open(path, 'w') as f:
                _json.dump(texts, f)
            conf = cfg.ConfigOpts()
            conf([], project='verif', default_config_files=[], default_config_dirs=[])
            kw = {}
            if dflt is not None and dflt[0] == 'opt':
                policy.Enforcer(conf, use_conf=False)
                conf.set_override('policy_default_rule', dflt[1], group='oslo_policy')
            elif dflt is not None and dflt[0] == 'name':
                kw['default_rule'] = dflt[1]
            elif dflt is not None and dflt[0] == 'check':
                kw['default_rule'] = _parser.parse_rule(ev.rule_text(dflt[1]))
            self.e = policy.Enforcer(conf, policy_file=path, **kw)
            conf.set_override('policy_dirs', [], group='oslo_policy')
            conf.set_override('enforce_scope', bool(enforce_scope), group='oslo_policy')
            try:
                self.e.load_rules()         # the session starts with the file loaded
            except Exception:               # (if loading fails, so will the first enforcement call - observed there)
                pass
        else:
            self.e = ev.make_enforcer(texts, dflt, reg, enforce_scope, via)
        self.trace = {'init': {'rules': [[n, ev.strip(t)] for n, t in rules], 'dflt': dflt_spec(dflt)}, 'events': []}
        self.cur = list(rules)
        self.log = []

    def set_rules(self, rules, overwrite=True, how='rules_obj', scribble=False):
        from oslo_policy import policy, _parser
        texts = {n: ev.rule_text(t) for n, t in rules}
        if how == 'rules_obj':
            arg = policy.Rules.from_dict(texts, self.e.default_rule)
        elif how == 'own_default':
            arg = policy.Rules.from_dict(texts, sorted(texts)[0] if texts else 'default')
        else:
            arg = {n: _parser.parse_rule(t) for n, t in texts.items()}
        self.e.set_rules(arg, overwrite=overwrite, use_conf=self.file_backed)
        if scribble:
            # the caller goes on using ITS object: the enforcer's rule store is not the caller's mapping
            from oslo_policy import _checks
            arg.clear()
            for nm in ('zz', 'n1', 'n2', 'd', 'default'):
                arg[nm] = _checks.TrueCheck()
            self.log.append('caller then clears the mapping it passed and defines zz, n1, n2, d, default = @ in it')
        self.trace['events'].append({'op': 'set_rules', 'overwrite': 1 if overwrite else 0, 'rules': [[n, ev.strip(t)] for n, t in rules]})
        self.log.append('set_rules(%r, overwrite=%s, as %s)' % (texts, overwrite, how))
        if overwrite:
            self.cur = list(rules)
        else:
            d = dict(self.cur)
            d.update(dict(rules))
            self.cur = list(d.items())

    def close(self):
        if self.tmp:
            import shutil
            shutil.rmtree(self.tmp, ignore_errors=True)

    def clear(self):
        self.e.clear()
        self.trace['events'].append({'op': 'clear'})
        self.log.append('clear()')
        self.cur = []

    def enforce(self, call, target, creds, checklog=0, same_objects=False):
        c = enforce_case(self.cur, call, target, creds, dflt=self.dflt, registered=self.registered, enforce_scope=self.enforce_scope,
                         checklog=checklog, enforcer=self.e, creds_obj=creds if same_objects else None, target_obj=target if same_objects else None)
        evn = strip_case(c)
        evn['op'] = 'enforce'
        self.trace['events'].append(evn)
        self.log.append('enforce(%s, %s, %s) -> %s' % (c['_call'], c['_target'], c['_creds'], {k: c['obs'][k] for k in ('o', 'v', 'cls')}))
        return c


class _S:
    def __init__(self, trace):
        self.trace = trace


def judge_sessions(ctx, sessions, timeout=3000, _canary=True):
    """returns list of (session index, failing event number)"""
    import json
    import os
    import re
    import tempfile
    if not sessions:
        return []
    fd, path = tempfile.mkstemp(prefix='verif_sessions_', suffix='.json')
    try:
        with os.fdopen(fd, 'w') as f:
            json.dump([s.trace for s in sessions], f)
        res = tlc.run('Trace_Store', 'SPECIFICATION Spec\nINVARIANT Conforms\nCHECK_DEADLOCK FALSE\n', env={'VERIF_CASES': path}, cont=True, timeout=timeout)
    finally:
        os.unlink(path)
    ctx.traces += len(sessions)
    want = sum(len(s.trace['events']) for s in sessions) + len(sessions)
    if res.distinct != want:
        raise tlc.TLCError('Trace_Store: %d states for %d events+starts\n%s' % (res.distinct, want, res.out[-1500:]))
    bad = {}
    for v in res.violations:
        if v['name'] != 'Conforms':
            raise tlc.TLCError('unexpected violation %s\n%s' % (v['name'], v['text'][:1500]))
        cid = int(re.findall(r'\bcid = (\d+)', v['text'])[-1])
        l = int(re.findall(r'\bl = (\d+)', v['text'])[-1])
        if cid not in bad or l < bad[cid]:
            bad[cid] = l
    if _canary:
        from harness import canary
        from checks import canaries
        canary.probe(ctx, 'Trace_Store', [s.trace for i, s in enumerate(sessions, 1) if i not in bad], canaries.session,
                     lambda trs: {si for si, _ in judge_sessions(canary.NullCtx(), [_S(t) for t in trs], timeout, _canary=False)}, k=8)
    return [(cid - 1, l - 1) for cid, l in sorted(bad.items())]
