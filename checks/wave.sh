#!/bin/bash
# adopt + test second-wave seeds: wave.sh C05 C08 ...
for p in "$@"; do for i in ${IDX:-1 2}; do
  id=$p-$((i+${OFF:-2}))
  if [ -f ${SEEDDIR:-/tmp/seeds2}/$p/patch$i.diff ]; then
    /venv/bin/python checks/adopt_seed.py $id $p ${SEEDDIR:-/tmp/seeds2}/$p/patch$i.diff ${SEEDDIR:-/tmp/seeds2}/$p/demo$i.py ${SEEDDIR:-/tmp/seeds2}/$p/meta$i.json 2>&1 | tail -1 | cut -c1-160
    if [ -f seeded/$id/patch.diff ]; then /venv/bin/python checks/mutant.py seeded/$id/patch.diff $p | grep -v "KNOWN\|Applied" | cut -c1-220 | head -5; fi
  fi
done; done
