"""Driving real Enforcers along histories of the abstract file system and
recording traces for spec/Trace_Loader.tla."""
import itertools

from harness import fsbox, tlc

NAMES = ['n', 'n2', 'o']
MUTABLE = ['main', 'd1/a', 'd1/b', 'd2/a']
IGNORED = ['d1/.hidden', 'd1/sub']
KINDS = ['new', 'old', 'alias', 'both', 'fixed']
VARIANTS = ['plain', 'renamed', 'same', 'split', 'renamed_same', 'same_same', 'removal', 'renamed_any', 'same_any', 'any_new', 'shared_same']


def stamp(f, t):
    return '%s@%d' % (f, t)


def content(kind, f, t):
    if kind == 'new':
        return {'n': {'k': 'roles', 'r': [stamp(f, t)]}}
    if kind == 'old':
        return {'o': {'k': 'roles', 'r': [stamp(f, t)]}}
    if kind == 'alias':
        return {'o': {'k': 'alias', 'n': 'n'}}
    if kind == 'fixed':
        return {'n': {'k': 'roles', 'r': [f + '@fixed']}}
    if kind == 'oldasnew':
        return {'o': {'k': 'roles', 'r': ['dflt'], 'text': 'role:dflt'}}
    if kind == 'rolenew':
        return {'o': {'k': 'roles', 'r': ['n']}}
    if kind == 'oldsame':
        return {'o': {'k': 'roles', 'r': ['old'], 'text': '(role:old)'}}
    return {'n': {'k': 'roles', 'r': [stamp(f, t)]}, 'n2': {'k': 'roles', 'r': [stamp(f, t) + '#2']}}


STYLES = [('role:dflt', 'role:old'), ('(role:dflt)', 'role:old and @'), ('role:dflt or !', '! or role:old'),
          ('not not role:dflt', '(role:old or role:old)'), ('role:dflt and role:dflt', 'role:old and not !'),
          ('@ and role:dflt', '(role:old and role:old) or !'),
          # check strings that differ in letter case only and mean different things (rule names are
          # case-sensitive; the two helper rules are registered next to the defaults)
          ('rule:hlp', 'rule:HLP')]


def defaults_for(variant, style=0, reason='r', since='s'):
    """the service's default objects (scope_types project on every default).
    ``style`` picks textual variants of the same two check strings; reason /
    since are free text that must not influence anything."""
    from oslo_policy import policy
    new_s, old_s = STYLES[style % len(STYLES)]
    dep = policy.DeprecatedRule('o', old_s, deprecated_reason=reason, deprecated_since=since)
    sc = ['project']
    if variant == 'plain':
        return [policy.RuleDefault('n', new_s, scope_types=sc)]
    if variant == 'removal':
        return [policy.RuleDefault('n', new_s, scope_types=sc, deprecated_for_removal=True, deprecated_reason=reason or 'r', deprecated_since=since)]
    if variant == 'renamed':
        return [policy.RuleDefault('n', new_s, deprecated_rule=dep, scope_types=sc)]
    if variant == 'renamed_same':
        return [policy.RuleDefault('n', new_s, scope_types=sc, deprecated_rule=policy.DeprecatedRule(
            'o', new_s, deprecated_reason=reason, deprecated_since=since))]
    if variant == 'same':
        return [policy.RuleDefault('n', new_s, scope_types=sc, deprecated_rule=policy.DeprecatedRule(
            'n', old_s, deprecated_reason=reason, deprecated_since=since))]
    if variant in ('renamed_any', 'same_any'):
        # the deprecated default is the empty check string (always allow)
        return [policy.RuleDefault('n', new_s, scope_types=sc, deprecated_rule=policy.DeprecatedRule(
            'o' if variant == 'renamed_any' else 'n', ['', '@', '@ or @'][style % 3], deprecated_reason=reason, deprecated_since=since))]
    if variant == 'any_new':
        return [policy.RuleDefault('n', ['', '@'][style % 2], deprecated_rule=dep, scope_types=sc)]
    if variant == 'shared_same':
        return [policy.RuleDefault('o', new_s, scope_types=sc, deprecated_rule=policy.DeprecatedRule('o', old_s, deprecated_reason=reason, deprecated_since=since)),
                policy.RuleDefault('n', new_s, deprecated_rule=dep, scope_types=sc)]
    if variant == 'same_same':
        return [policy.RuleDefault('n', new_s, scope_types=sc, deprecated_rule=policy.DeprecatedRule(
            'n', new_s, deprecated_reason=reason, deprecated_since=since))]
    return [policy.RuleDefault('n', new_s, deprecated_rule=dep, scope_types=sc),
            policy.RuleDefault('n2', old_s, deprecated_rule=dep, scope_types=sc)]


def snapshot_defaults(defaults):
    """attribute-level snapshot of the caller-owned objects"""
    out = []
    for d in defaults:
        dr = d.deprecated_rule
        out.append((id(d), d.name, d.check_str, str(d.check), id(d.check), tuple(d.scope_types or ()),
                    (id(dr), dr.name, dr.check_str, str(dr.check), id(dr.check), dr.deprecated_reason, dr.deprecated_since) if dr else None,
                    d.deprecated_for_removal, d.deprecated_reason, d.deprecated_since, d.description))
    return out


ORIG_OPTION_DEFAULTS = {}


def restore_option_defaults():
    """the library's option objects are process-global: routes that change their defaults put them back"""
    from oslo_policy import opts
    for o in opts._options:
        if o.name in ORIG_OPTION_DEFAULTS:
            o.default, o._set_location = ORIG_OPTION_DEFAULTS[o.name]      # (value and where oslo.config says it was set)


def new_enforcer(box, variant, enforce_new, defaults=None, overwrite=True, warn=False, nreg=None, dup_dirs=False, absent_first=False, route='override', dr=False):
    """``route``: how the configuration reaches the enforcer - 'override' (policy_file argument, options
    overridden), 'set_defaults' (ONE opts.set_defaults call naming the policy file and the other options, no
    policy_file argument) or 'discover' (nothing configured: the main file is a policy.json found in the
    configuration directory by the documented fallback)"""
    from oslo_config import cfg
    from oslo_policy import opts, policy
    if not ORIG_OPTION_DEFAULTS:
        ORIG_OPTION_DEFAULTS.update({o.name: (o.default, o._set_location) for o in opts._options})
    conf = cfg.ConfigOpts()
    if dr:
        # a default rule: undefined names are decided by the registered helper policy hlp (role:dflt)
        opts._register(conf)
        conf.set_override('policy_default_rule', 'hlp', group='oslo_policy')
    dirs = box.dirs()
    if dup_dirs:
        dirs = [dirs[0], dirs[1], dirs[0], dirs[2]]
    if absent_first:
        dirs = [dirs[2], dirs[0], dirs[1]]
    if route == 'discover':
        conf(['--config-dir', box.root], project='verif', default_config_files=[])
        e = policy.Enforcer(conf, overwrite=overwrite)
    elif route == 'set_defaults':
        conf([], project='verif', default_config_files=[], default_config_dirs=[])
        opts.set_defaults(conf, box.path('main'), enforce_new_defaults=bool(enforce_new), policy_dirs=dirs)
        e = policy.Enforcer(conf, overwrite=overwrite)
    else:
        conf([], project='verif', default_config_files=[], default_config_dirs=[])
        e = policy.Enforcer(conf, policy_file=box.path('main'), overwrite=overwrite)
    if route != 'set_defaults':
        conf.set_override('policy_dirs', dirs, group='oslo_policy')
        conf.set_override('enforce_new_defaults', bool(enforce_new), group='oslo_policy')
    e.suppress_deprecation_warnings = not warn
    dl = defaults if defaults is not None else defaults_for(variant)
    e.register_defaults([policy.RuleDefault('hlp', 'role:dflt'), policy.RuleDefault('HLP', 'role:old')])
    e.register_defaults(dl if nreg is None else dl[:nreg])
    return e


def decisions(e, roles, via='enforce'):
    """name -> sorted list of single roles the enforcer allows"""
    out = {}
    for n in NAMES:
        ok = []
        for r in roles:
            if via == 'enforce':
                if e.enforce(n, {}, {'roles': [r]}):
                    ok.append(r)
            elif via == 'check':
                # the rule given as a check object that refers to the policy by name
                from oslo_policy import _checks
                if e.enforce(_checks.RuleCheck('rule', n), {}, {'roles': [r]}):
                    ok.append(r)
            else:
                try:
                    chk = e.rules[n]            # (an undefined name looks up the default rule, if one is usable)
                except KeyError:
                    chk = None
                if chk is not None and chk({}, {'roles': [r]}, e):
                    ok.append(r)
        out[n] = ok
    return out


def apply_fs(box, ev):
    """apply one file-system event of a history; returns the recorded event
    (with the clock value) or None when the operation is not enabled"""
    op, f = ev[0], ev[1]
    if op == 'write':
        t = box.write(f, content(ev[2], f, box.clock + 1))
        return {'op': 'write', 'f': f, 'kind': ev[2], 't': t}
    if op == 'ignored':
        t = box.write(f, content('new', f, box.clock + 1))
        return {'op': 'ignored', 'f': f, 't': t}
    if not box.exists(f):
        return None
    if op == 'replace':
        if '/' not in f or (ev[3] and box.mtime(f) <= 1):
            return None
        t = box.replace(f, content(ev[2], f, box.clock + 1), ev[3])
        return {'op': 'replace', 'f': f, 'kind': ev[2], 'older': 1 if ev[3] else 0, 't': t}
    t = getattr(box, op)(f)
    return {'op': op, 'f': f, 't': t}


class Live:
    """one long-lived enforcer with its own files, driven along a history"""

    def __init__(self, rng, variant, enforce_new, defaults=None, via='enforce', overwrite=True, warn=None, box=None, late=False, dup_dirs=False,
                 make_dirs=None, absent_first=False, route='override', pre=(), dr=False):
        self.route = route
        self.dr = dr
        if box is not None:
            self.box = box
        elif route == 'discover':
            self.box = fsbox.Box(rng, main_name='policy.json', make_dirs=(rng.random() < 0.7) if make_dirs is None else make_dirs)
        else:
            self.box = fsbox.Box(rng, make_dirs=(rng.random() < 0.7) if make_dirs is None else make_dirs)
        # file events that happen before the enforcer is constructed (recorded after the boot event)
        pre_recs = [apply_fs(self.box, ev) for ev in pre]
        self.rng = rng
        self.own_box = box is None
        self.peers = [self]                 # every enforcer reading the same files records every file event
        self.variant, self.enforce_new, self.via, self.overwrite = variant, enforce_new, via, overwrite
        self.defaults = defaults if defaults is not None else defaults_for(variant)
        self.snap = snapshot_defaults(self.defaults)
        self.warn = (rng.random() < 0.5) if warn is None else warn
        self.dup_dirs = dup_dirs
        self.absent_first = absent_first
        self.e = new_enforcer(self.box, variant, enforce_new, self.defaults, overwrite, warn=self.warn, nreg=0, dup_dirs=dup_dirs, absent_first=absent_first, route=route, dr=dr)
        self.roles = ['dflt', 'old', 'nobody', 'n'] + [f + '@fixed' for f in MUTABLE]
        self.trace = [{'op': 'boot', 'de': 1 if self.box.make_dirs else 0, 'dr': 1 if dr else 0}]
        for r in pre_recs:
            if r is not None:
                if r['op'] in ('write', 'ignored', 'replace'):
                    self.roles.append(stamp(r['f'], r['t']))
                    self.roles.append(stamp(r['f'], r['t']) + '#2')
                self.trace.append(dict(r))
        self.last_print = None
        self.synced = False
        self.nreg = 0
        # defaults are registered one by one (the specification counts them); with late=True the
        # last one is held back until the history asks for it
        for _ in range(len(self.defaults) - (1 if late else 0)):
            self.step(('register',))

    def step(self, ev):
        if ev[0] == 'register':
            if self.nreg >= len(self.defaults):
                return None
            self.e.register_default(self.defaults[self.nreg])
            self.nreg += 1
            self.synced = False
            self.trace.append({'op': 'register'})
            return self.trace[-1]
        if ev[0] == 'setopt':
            self.e.conf.set_override('enforce_new_defaults', bool(ev[1]), group='oslo_policy')
            self.enforce_new_now = bool(ev[1])
            self.synced = False
            self.trace.append({'op': 'setopt', 'v': 1 if ev[1] else 0})
            return self.trace[-1]
        if ev[0] == 'load':
            rec = {'op': 'load', 'force': 1 if ev[1] else 0, 'raised': 0, 'dec': {n: [] for n in NAMES},
                   'fresh': {n: [] for n in NAMES}, 'printsame': 1, 'shared': 1, 'scopeblk': 1}
            rec['warnon'] = 1 if self.warn else 0
            rec['roles'] = list(self.roles)
            rec['warn'] = []
            try:
                import warnings as _w
                fresh_dec = None
                if self.rng.random() < 0.4:
                    # the newly constructed enforcer may just as well read the files BEFORE the long-lived one
                    fresh0 = new_enforcer(self.box, self.variant, getattr(self, 'enforce_new_now', self.enforce_new), self.defaults, self.overwrite, nreg=self.nreg, dup_dirs=self.dup_dirs, absent_first=self.absent_first, route=self.route, dr=self.dr)
                    fresh_dec = decisions(fresh0, self.roles, 'enforce')
                    rec['_fresh_first'] = True
                with _w.catch_warnings(record=True) as caught:
                    _w.simplefilter('always')
                    if self.via == 'check' and not ev[1]:
                        # no explicit load: the first enforcement call (rule given as a check object) loads
                        rec['warnon'] = 0
                    else:
                        self.e.load_rules(bool(ev[1]))          # exactly one load_rules call is observed
                if self.warn:
                    for w in caught:
                        m = str(w.message)
                        if 'was deprecated for removal' in m:
                            rec['warn'].append(['removal', m.split('"')[1]])
                        elif 'was deprecated in' in m and 'in favor of' in m:
                            rec['warn'].append(['deprecated', m.split('in favor of "')[1].split('"')[0]])
                if ev[1]:
                    rec['dec'] = decisions(self.e, self.roles, 'rules')      # state right after the forced load
                else:
                    rec['dec'] = decisions(self.e, self.roles, self.via)
                pr = str(self.e.rules)
                if self.synced and self.last_print is not None and pr != self.last_print:
                    rec['printsame'] = 0
                    rec['_print_before'], rec['_print_after'] = self.last_print, pr
                self.last_print = pr
                # registered names under a system-scoped token: refused, whatever the files say
                for d in self.defaults[:self.nreg]:
                    for r in self.roles:
                        if self.e.enforce(d.name, {}, {'roles': [r], 'system_scope': 'all'}):
                            rec['scopeblk'] = 0
                if fresh_dec is None:
                    fresh = new_enforcer(self.box, self.variant, getattr(self, 'enforce_new_now', self.enforce_new), self.defaults, self.overwrite, nreg=self.nreg, dup_dirs=self.dup_dirs, absent_first=self.absent_first, route=self.route, dr=self.dr)
                    fresh_dec = decisions(fresh, self.roles, 'enforce')
                rec['fresh'] = fresh_dec
                if snapshot_defaults(self.defaults) != self.snap:
                    rec['shared'] = 0
            except Exception as ex:
                rec['raised'] = 1
                rec['_exc'] = '%s: %s' % (type(ex).__name__, ex)
            self.trace.append(rec)
            self.synced = True
            return rec
        r = apply_fs(self.box, ev)
        if r is None:
            return None
        for lv in self.peers:
            lv.synced = False
            if r['op'] in ('write', 'ignored', 'replace'):
                lv.roles.append(stamp(r['f'], r['t']))
                lv.roles.append(stamp(r['f'], r['t']) + '#2')
            lv.trace.append(dict(r))
        return r

    def close(self):
        if self.route == 'set_defaults':
            restore_option_defaults()
        if self.own_box:
            self.box.close()


def run_history(rng, variant, enforce_new, history, via='enforce', defaults=None, overwrite=True, late=False, dup_dirs=False, absent_first=False,
                route='override', pre=(), dr=False):
    """history: list of ('write', f, kind) / ('empty'|'touch'|'delete', f) /
    ('ignored', f) / ('load', force).  Returns the recorded trace."""
    # (a changed enforce_new_defaults option takes effect at the next rebuild of the rule store; without a main
    #  file and without any existing directory there is nothing to rebuild from - histories that change the
    #  option run with the directories in place)
    lv = Live(rng, variant, enforce_new, via=via, defaults=defaults, overwrite=overwrite, late=late, dup_dirs=dup_dirs, absent_first=absent_first,
              make_dirs=True if any(op[0] == 'setopt' for op in history) else None, route=route, pre=pre, dr=dr)
    try:
        for ev in history:
            lv.step(ev)
    finally:
        lv.close()
    return lv.trace


CFG = """SPECIFICATION TSpec
CONSTANTS
 MaxOps = 1000
 EnforceNew = %s
 Variant = "%s"
 StartWithMain = FALSE
 Overwrite = %s
 StartReg = FALSE
 Names <- MCNames
 MainFile = "main"
 Dirs <- %s
 Loadable <- MCLoadable
 Ignored <- MCIgnored
 Defaults <- MCDefaults
INVARIANT Conforms
INVARIANT WarnOK
CHECK_DEADLOCK FALSE
"""


def strip_trace(tr):
    return [{k: v for k, v in ev.items() if not k.startswith('_')} for ev in tr]


def judge_traces(ctx, variant, enforce_new, traces, timeout=3000, overwrite=True, _canary=True, dup_dirs=False, absent_first=False):
    """returns list of (trace index, why, step) for rejected traces"""
    import json
    import os
    import re
    import tempfile
    if not traces:
        return []
    fd, path = tempfile.mkstemp(prefix='verif_traces_', suffix='.json')
    try:
        with os.fdopen(fd, 'w') as f:
            json.dump([strip_trace(t) for t in traces], f, separators=(',', ':'))
        res = tlc.run('Trace_Loader', CFG % ('TRUE' if enforce_new else 'FALSE', variant, 'TRUE' if overwrite else 'FALSE', 'MCDirsDup' if dup_dirs else ('MCDirsAbsentFirst' if absent_first else 'MCDirs')), env={'VERIF_CASES': path},
                      cont=True, timeout=timeout)
    finally:
        os.unlink(path)
    ctx.traces += len(traces)
    ctx.cover['trace_states'] = ctx.cover.get('trace_states', 0) + res.distinct
    want = sum(len(t) for t in traces) + len(traces)
    if res.distinct != want:
        raise tlc.TLCError('Trace_Loader: %d states for %d events+starts: some trace was not consumed to its end\n%s'
                           % (res.distinct, want, res.out[-1500:]))
    bad = {}
    nwarn = 0
    for v in res.violations:
        if v['name'] == 'WarnOK':
            nwarn += 1
            continue
        if v['name'] != 'Conforms':
            raise tlc.TLCError('unexpected violation %s\n%s' % (v['name'], v['text'][:1500]))
        # last state of the printed behaviour
        cids = re.findall(r'\bcid = (\d+)', v['text'])
        ls = re.findall(r'\bl = (\d+)', v['text'])
        whys = re.findall(r'\bwhy = "([^"]*)"', v['text'])
        cid = int(cids[-1])
        if cid not in bad or int(ls[-1]) < bad[cid][1]:
            bad[cid] = (whys[-1], int(ls[-1]))
    if nwarn:
        ctx.note('MODEL-DRIFT (not a listed property): in %d states of %s traces the deprecation warnings of a load differ from the specified ones' % (nwarn, variant))
    if _canary:
        from harness import canary
        from checks import canaries
        canary.probe(ctx, 'Trace_Loader', [t for i, t in enumerate(traces, 1) if i not in bad], canaries.loader_trace,
                     lambda trs: {i for i, _, _ in judge_traces(canary.NullCtx(), variant, enforce_new, trs, timeout, overwrite, _canary=False, dup_dirs=dup_dirs, absent_first=absent_first)}, k=8)
    return [(cid - 1, w, l) for cid, (w, l) in sorted(bad.items())]


def all_histories(depth, ops):
    for n in range(1, depth + 1):
        for h in itertools.product(ops, repeat=n):
            yield list(h)


FS_OPS = [('write', f, k) for f in MUTABLE for k in KINDS] + [(op, f) for f in MUTABLE for op in ('empty', 'touch', 'delete')] + \
         [('ignored', f) for f in IGNORED] + [('replace', f, k, o) for f in MUTABLE if '/' in f for k in ('new', 'old') for o in (False, True)]
