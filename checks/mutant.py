#!/venv/bin/python
"""Run checks against a mutated copy of the repository.

  mutant.py <patch.diff> <Cxx> [<Cyy> ...] [--tier quick]

A scratch git worktree of /repo's HEAD is created outside /repo and /verif,
the patch applied there, the checks run with VERIF_REPO pointing at it, and
the worktree removed again.  /repo itself is never modified.  Prints one
line per check: DETECTED / MISSED / BROKEN(rc).
"""
import os
import shutil
import subprocess
import sys
import tempfile

HERE = os.path.dirname(os.path.abspath(__file__))


def main():
    args = [a for a in sys.argv[1:] if not a.startswith('--')]
    tier = 'quick'
    if '--tier' in sys.argv:
        tier = sys.argv[sys.argv.index('--tier') + 1]
        args = [a for a in args if a != tier]
    patch, pids = os.path.abspath(args[0]), args[1:]
    wt = tempfile.mkdtemp(prefix='verif_mut_')
    os.rmdir(wt)
    rc_all = 0
    try:
        subprocess.check_call(['git', '-C', '/repo', 'worktree', 'add', '-q', '--detach', wt, 'HEAD'])
        # carry over uncommitted edits of /repo's working tree, then the mutant
        diff = subprocess.run(['git', '-C', '/repo', 'diff', 'HEAD'], stdout=subprocess.PIPE).stdout
        if diff.strip():
            subprocess.run(['git', '-C', wt, 'apply'], input=diff, check=True)
        subprocess.check_call(['git', '-C', wt, 'apply', '--3way', patch])
        scratch = tempfile.mkdtemp(prefix='verif_mutout_')
        env = dict(os.environ, VERIF_REPO=wt, VERIF_EVIDENCE_DIR=scratch, VERIF_REPLAY_DIR=scratch)
        for pid in pids:
            p = subprocess.run(['/venv/bin/python', os.path.join(HERE, 'run.py'), pid, '--tier', tier],
                               env=env, stdout=subprocess.PIPE, stderr=subprocess.STDOUT)
            out = p.stdout.decode('utf-8', 'replace')
            viol = [l for l in out.splitlines() if l.startswith('VIOLATION')]
            state = 'DETECTED' if (p.returncode == 1 and viol) else ('MISSED' if p.returncode == 0 else 'BROKEN(%d)' % p.returncode)
            print('%s %s %s' % (state, pid, os.path.basename(patch)))
            for l in out.splitlines():
                if l.startswith(('VIOLATION', '  ', 'KNOWN', 'MACHINERY')) or state.startswith('BROKEN'):
                    print('   | ' + l[:300])
            if state != 'DETECTED':
                rc_all = 1
    finally:
        shutil.rmtree(locals().get('scratch', '/nonexistent'), ignore_errors=True)
        subprocess.call(['git', '-C', '/repo', 'worktree', 'remove', '--force', wt])
        shutil.rmtree(wt, ignore_errors=True)
        subprocess.call(['git', '-C', '/repo', 'worktree', 'prune'])
    return rc_all


if __name__ == '__main__':
    sys.exit(main())
