"""C05 - attribute checks compare a literal or a credential path with the
target value.

MC  : spec/MC_Leaves.tla (Mode generic) - every credential tree of depth <= 3
      over two keys (dicts, lists, lists of lists, scalars) x paths of depth
      1..3: the operational walk (as _find_in_dict) equals the sentence of
      C05 (set of reached values), and the strict/loose readings differ only
      when a list sits directly inside a list (the corner left open).
C2S : enumerated and random checks (literal left sides of every kind, dotted
      paths of depth 1..4, literal and placeholder right sides) against
      random nested credentials and flat targets, through Enforcer.enforce;
      judged by spec/Conf_Eval.tla.
"""
from harness import ev, tlc
from checks import eval_common as ec

MC_CFG = """SPECIFICATION Spec
CONSTANTS MaxName = 1
 Mode = "generic"
INVARIANT GenOpIsDecl
INVARIANT GenCornerOnlyNested
CHECK_DEADLOCK FALSE
"""

SCALARS = ['v', 'w', 'APPLES', '', 'True', 'None', '1', 1, 0, 1.5, True, False, None, -3, 'é', "['v']", "{'c': 'v'}"]
LITS = ['.5', '5.', '1_000', '2.5e-1', '1e+16', '0o17', '0b101', '+1', "'v'", '"v"', "'APPLES'", '1', '0', '1.5', 'True', 'False', 'None', '-3', "'True'", "''", '0x10', '1e3', "'é'", '[1,2]', "b'x'"]
KEYS = ['a', 'b', 'c']


KEYSETS = [KEYS, KEYS, KEYS, ['a', 'auth_token', 'password'], ['secret_ref', 'b', 'token'], ['user', 'password', 'x_auth_token'],
           # attribute names that are no Python expressions (keywords, a leading digit, a dash): still plain keys
           ['class', 'a', '0'], ['from', '2fa', 'b'], ['x-y', 'global', 'c']]


def rand_value(rng, depth, keys=KEYS):
    r = rng.random()
    if depth <= 0 or r < 0.3:
        return rng.choice(SCALARS)
    if r < 0.6:
        return {k: rand_value(rng, depth - 1, keys) for k in rng.sample(keys, rng.randint(1, 3))}
    if r < 0.9:
        return [rand_value(rng, depth - 1, keys) for _ in range(rng.randint(0, 3))]
    return [[rand_value(rng, depth - 2, keys) for _ in range(rng.randint(1, 2))] for _ in range(rng.randint(1, 2))]


def reach_values(v, segs, acc):
    """values the path can reach (either reading of the open corner) - used
    only to pick interesting right sides, never for a verdict"""
    if not segs:
        acc.append(v)
        return
    if isinstance(v, dict) and segs[0] in v:
        x = v[segs[0]]
        if isinstance(x, list):
            for el in x:
                _reach_el(el, segs[1:], acc)
        else:
            reach_values(x, segs[1:], acc)


def _reach_el(el, segs, acc):
    if isinstance(el, list) and segs:
        for y in el:
            _reach_el(y, segs, acc)
    else:
        reach_values(el, segs, acc)


def run(ctx):
    q = ctx.quick
    res = tlc.run('MC_Leaves', MC_CFG, coverage=not q, timeout=3000)
    ctx.add_mc('MC_Leaves(generic)', res)
    rng = ctx.rng
    cases = []
    n_corner = 0
    for i in range(1500 if q else 40000):
        keys = rng.choice(KEYSETS)
        creds = {k: rand_value(rng, rng.randint(0, 4), keys) for k in rng.sample(keys, rng.randint(1, 3))}
        creds['roles'] = ['r']
        target = {}
        if rng.random() < 0.3:
            lhs = rng.choice(LITS)
            isl, sform = ev.is_literal(lhs)
            want_val = sform if (isl and rng.random() < 0.6) else str(rng.choice(SCALARS))
            if isl and sform and rng.random() < 0.3:
                # a proper part of the literal's string form (or nothing) is not the literal
                want_val = rng.choice([sform[:-1], sform[1:], sform[:1], '', sform + sform[-1]])
        else:
            lhs = '.'.join(rng.choice(keys) for _ in range(rng.randint(1, 4)))
            reached = []
            reach_values(creds, lhs.split('.'), reached)
            if reached and rng.random() < 0.75:
                want_val = str(rng.choice(reached))
            else:
                want_val = str(rng.choice(SCALARS))
        # right side: literal text when it can be written as one word, else placeholder
        plain = want_val != '' and not any(ch.isspace() or ch in '()%' for ch in want_val)
        mode = rng.random()
        if plain and mode < 0.5:
            parts = [want_val]
        elif mode < 0.9:
            key = rng.choice(['t', 'project_id', 'x.y', 'share_token', 'password'])
            parts = [ev.ph(key)]
            # the target value itself (any JSON type): compared by string form
            tv = want_val
            for sc in SCALARS:
                if str(sc) == want_val and rng.random() < 0.5:
                    tv = sc
            target[key] = tv
            if rng.random() < 0.1:
                target = {}             # missing key denies
        else:
            key = 't'
            cut = rng.randint(0, len(want_val))
            head = want_val[:cut]
            if any(ch.isspace() or ch in '()%' for ch in head):
                head, cut = '', 0
            parts = ([head] if head else []) + [ev.ph(key)]
            target[key] = want_val[cut:]
        leaf = ev.generic(lhs, *parts)
        nest = rng.choice(['self', 'self', 'self', 'not', 'and', 'alias'])
        if nest == 'self':
            rules = [('p:x', leaf)]
        elif nest == 'not':
            rules = [('p:x', ev.Not(leaf))]
        elif nest == 'and':
            rules = [('p:x', ev.And(ev.role('r'), leaf))]
        else:
            rules = [('p:x', ev.rule('g')), ('g', leaf)]
        # the library's debug logging (a masked dump of credentials and target on every call) is on
        # for some calls: attribute names that look like secrets are part of the key alphabet
        ec.set_debug(rng.random() < 0.35)
        c = ec.enforce_case(rules, {'by': 'name', 'name': 'p:x'}, target, creds, dflt=('opt', None), want='c05')
        cases.append(c)
    ec.set_debug(False)
    # a list is matched element by element, never as a whole: the string form of the whole list is no match
    for L in ([], [1, 2], ['v'], [None], [[1]], [True], [{'c': 'v'}]):
        for creds, lhs in (({'a': {'b': L}, 'roles': []}, 'a.b'), ({'ids': L, 'roles': []}, 'ids'), ({'a': [{'b': L}], 'roles': []}, 'a.b')):
            for tv in (str(L), L):
                cases.append(ec.enforce_case([('p:x', ev.generic(lhs, ev.ph('t')))], {'by': 'name', 'name': 'p:x'}, {'t': tv}, creds, dflt=('opt', None), want='c05'))
    # list elements of every scalar kind, the falsy ones too: an element matches by its string form
    for falsy in (0, 0.0, False, None, '', 1, True, 'v'):
        for creds in ({'a': {'b': [falsy, 'x']}, 'roles': []}, {'a': [{'b': falsy}, {'b': 'y'}], 'roles': []}, {'a': {'b': [['x'], falsy]}, 'roles': []}):
            for parts, target in (([ev.ph('t')], {'t': str(falsy)}), ([ev.ph('t')], {'t': falsy}), ([str(falsy)] if str(falsy) else [ev.ph('t')], {'t': ''})):
                cases.append(ec.enforce_case([('p:x', ev.generic('a.b', *parts))], {'by': 'name', 'name': 'p:x'}, target, creds, dflt=('opt', None), want='c05'))
    # the right side is everything after the FIRST colon: further colons belong to it (values such as
    # "compute:admin", a URL, an IPv6 address, a placeholder between colons)
    for creds, lhs in (({'service': 'compute:admin', 'roles': []}, 'service'), ({'user': {'roles': [{'name': 'net:reader'}, {'name': 'x'}]}, 'roles': []}, 'user.roles.name'),
                       ({'zone': 'az1:r2', 'roles': []}, 'zone'), ({'a': {'b': '::1'}, 'roles': []}, 'a.b'), ({'roles': []}, "'k'")):
        for parts, target in ((['compute:admin'], {}), (['net:reader'], {}), ([ev.ph('az'), ':', ev.ph('rack')], {'az': 'az1', 'rack': 'r2'}), (['::1'], {}),
                              (['k:v'], {}), ([ev.ph('t')], {'t': 'compute:admin'}), (['compute:', ev.ph('t')], {'t': 'admin'}), ([':'], {})):
            for nest in ('self', 'not', 'alias'):
                leaf = ev.generic(lhs, *parts)
                rules = {'self': [('p:x', leaf)], 'not': [('p:x', ev.Not(leaf))], 'alias': [('p:x', ev.rule('g')), ('g', leaf)]}[nest]
                cases.append(ec.enforce_case(rules, {'by': 'name', 'name': 'p:x'}, target, creds, dflt=('opt', None), want='c05'))
    # check objects are shared by every thread that uses the enforcer: a call suspended inside the
    # evaluation decides on its own target and credentials whatever another call does meanwhile
    n_conc = 0
    for leaf, a, b in [
            (ev.generic('project_id', ev.ph('project_id')), ({'project_id': 'p1'}, {'project_id': 'p1', 'roles': []}), ({'project_id': 'p2'}, {'project_id': 'p2', 'roles': []})),
            (ev.generic('project_id', ev.ph('project_id')), ({'project_id': 'p1'}, {'project_id': 'p2', 'roles': []}), ({'project_id': 'p2'}, {'project_id': 'p2', 'roles': []})),
            (ev.generic('user.groups.name', ev.ph('group')), ({'group': 'g1'}, {'user': {'groups': [{'name': 'g1'}, {'name': 'g3'}]}, 'roles': []}),
             ({'group': 'g2'}, {'user': {'groups': [{'name': 'g2'}]}, 'roles': []})),
            (ev.generic("'lit'", ev.ph('t')), ({'t': 'lit'}, {'roles': []}), ({'t': 'other'}, {'roles': []})),
            (ev.generic('a.b', 'x-', ev.ph('t')), ({'t': 'v'}, {'a': {'b': 'x-v'}, 'roles': []}), ({'t': 'w'}, {'a': {'b': 'x-w'}, 'roles': []}))]:
        for nest in ('self', 'not'):
            rules = [('p:x', leaf if nest == 'self' else ev.Not(leaf))]
            cs = ec.interference_cases(rules, 'p:x', a, b, 'c05', rng, q)
            n_conc += len(cs)
            cases += cs
    ctx.cover['concurrent_call_cases'] = n_conc
    bad = ec.judge(ctx, cases)
    for c in bad:
        ctx.violation('generic-check:' + ('raises:' + c['obs']['cls'] if c['obs']['o'] == 'raise' else 'decision'),
                      'generic lhs:rhs decision differs from "rhs equals the string form of the literal / of a value the path reaches"', ec.describe(c))
    ctx.cover.update({'random_cases': len(cases), 'literal_lhs_forms': LITS, 'scalar_values': [repr(s) for s in SCALARS],
                      'allowing_cases': sum(1 for c in cases if c['obs'].get('v') == 1)})
    for c in cases[:8]:
        ctx.sample(ec.sample(c))
    ctx.assumptions += ['"Python literal" is defined by ast.literal_eval and "string form" by str() (trusted built-ins; supplied to TLC per case)',
                        'a list directly inside a list with path segments left is the corner the statement leaves open: both readings are accepted, raising is not']
