"""C08 - scope types gate a policy independently of its check string.

MC  : spec/MC_Scope.tla - the complete finite table (16 scope-type lists x
      scope attributes present/empty/absent x both spellings of the system
      scope x enforce_scope x do_raise x check result x by name / check
      object x registered or not): Enforce as the code does it equals the
      sentence of C08, with token precedence system > domain > project.
S2C : the same table against real Enforcers with three credential
      representations (RequestContext, its to_policy_values() mapping, plain
      dict), registered defaults with scope_types, the rule overridden or
      not; every execution judged by spec/Conf_Eval.tla.
"""
import itertools

from harness import ev, tlc
from checks import eval_common as ec

MC_CFG = """SPECIFICATION Spec
INVARIANT InvScopeTable
INVARIANT InvTokenPrecedence
INVARIANT InvAllowNeverRaises
INVARIANT InvDoRaiseNeverFalsy
INVARIANT InvRaiseIffFalsy
INVARIANT InvDocumented
CHECK_DEADLOCK FALSE
"""

KINDS = ['system', 'domain', 'project']


def scope_lists():
    out = [()]
    for n in (1, 2, 3):
        out += list(itertools.permutations(KINDS, n))
    return out


def creds_reps(sys, dom, proj, roles, spelling, extra_domains=False):
    """abstract credentials and the three concrete representations"""
    from oslo_context import context
    kw = {'roles': list(roles), 'user_id': 'u'}
    if sys:
        kw['system_scope'] = 'all'
    if dom:
        kw['domain_id'] = 'd1'
    if proj:
        kw['project_id'] = 'p1'
    if extra_domains:
        # further attributes that NAME a domain do not make the token domain-scoped (nor undo it)
        kw['project_domain_id'] = 'd1'
        kw['user_domain_id'] = 'd1'
    reps = []
    # every context carries the same request id: two requests are told apart by what they hold, not by an id
    ctx = context.RequestContext(**{k: v for k, v in kw.items() if k != 'user_id'}, user_id='u', request_id='req-00000000-0000-0000-0000-000000000001')
    pv = ctx.to_policy_values()
    reps.append(('context', dict(pv), ctx))
    reps.append(('policy_values', dict(pv), pv))
    d = {'roles': list(roles), 'user_id': 'u'}
    if sys:
        d['system' if spelling == 'system' else 'system_scope'] = 'all'
        if spelling == 'system' and extra_domains:
            d['system_scope'] = None
    if dom:
        d['domain_id'] = 'd1'
    if proj:
        d['project_id'] = 'p1'
    if extra_domains:
        d['project_domain_id'] = 'd1'
        d['user_domain_id'] = 'd1'
    reps.append(('dict', dict(d), None))
    return reps


def run(ctx):
    q = ctx.quick
    res = tlc.run('MC_Scope', MC_CFG, coverage=not q, timeout=3000)
    ctx.add_mc('MC_Scope', res)
    rng = ctx.rng
    cases = []
    rows = 0
    for scopes in scope_lists():
        for sys, dom, proj in itertools.product((0, 1), repeat=3):
            for spelling in ('system', 'system_scope'):
                # one long-lived enforcer per configuration: the rows below are a history on it (do_raise off
                # before do_raise on, different bodies set with set_rules, the enforce_scope option switched)
                live = {}
                for enf in rng.choice([(True, False), (False, True), (True, False, True), (False, True, False)]):
                    for doraise in (0, 1):
                        for allow in (0, 1):
                            for override in (0, 1):
                                for by in ('name', 'check'):
                                    rows += 1
                                    two_kinds = sys + dom >= 2 or (sys + dom + proj >= 2)
                                    if q and not two_kinds and rng.random() > 0.12:
                                        continue
                                    if q and two_kinds and rng.random() > 0.3:
                                        continue
                                    roles = ['test'] if allow else ['other']
                                    for rep, abstract, obj in creds_reps(sys, dom, proj, roles, spelling, extra_domains=rng.random() < 0.3):
                                        if rep != 'dict' and spelling == 'system':
                                            continue      # the legacy spelling only exists for plain dicts
                                        # registered default role:test (or its negation); the file override, when
                                        # present, is a different text with the same decision or the opposite one
                                        body = ev.role('test')
                                        if override:
                                            body = rng.choice([ev.Or(ev.role('test'), ev.F), ev.And(ev.T, ev.role('test'))])
                                        if rng.random() < 0.25:
                                            body = ev.T if allow else ev.F        # "whatever the check string": the constants too
                                        rules = [('p:x', body)]
                                        registered = [('p:x', list(scopes))] if by == 'name' else []
                                        call = {'by': by, 'name': 'p:x', 'doraise': doraise}
                                        if by == 'check':
                                            call['tree'] = body
                                        if doraise and rng.random() < 0.3:
                                            call.update({'custom': 1, 'xargs': [1, 'x'], 'xkw': {'k': 2}})
                                        enforcer = None
                                        if rng.random() < 0.8:
                                            from oslo_policy import policy as _pol
                                            lk = (by,)
                                            if lk not in live:
                                                live[lk] = ev.make_enforcer({'p:x': ev.rule_text(body)}, ('opt', None),
                                                                            [(n, list(sc), 'role:test') for n, sc in registered], enf)
                                            enforcer = live[lk]
                                            enforcer.conf.set_override('enforce_scope', bool(enf), group='oslo_policy')
                                            enforcer.set_rules(_pol.Rules.from_dict({'p:x': ev.rule_text(body)}, enforcer.default_rule), use_conf=False)
                                        c = ec.enforce_case(rules, call, {}, abstract, dflt=('opt', None), registered=registered,
                                                            enforce_scope=enf, check_scopes=list(scopes) if by == 'check' else (),
                                                            want='c08', creds_obj=obj, extra={'_rep': rep, '_scopes': list(scopes)},
                                                            enforcer=enforcer)
                                        cases.append(c)
    # the enforce_scope option set the way a service sets it - one opts.set_defaults call that also names the
    # policy file - and the authorize entry point with do_raise passed by keyword position
    for enf in (False, True):
        for scopes in (['system'], ['project'], ['domain', 'project']):
            for sys, dom, proj in ((0, 0, 1), (1, 0, 0), (0, 1, 0)):
                for allow in (1, 0):
                    roles = ['test'] if allow else ['other']
                    for rep, abstract, obj in creds_reps(sys, dom, proj, roles, 'system_scope', extra_domains=False):
                        for call, via in (({'by': 'name', 'name': 'p:x', 'doraise': 0}, 'set_defaults'),
                                          ({'by': 'name', 'name': 'p:x', 'doraise': 1}, 'set_defaults'),
                                          ({'by': 'name', 'name': 'p:x', 'doraise': 1, 'authorize': 1}, 'rules_obj'),
                                          ({'by': 'name', 'name': 'p:x', 'doraise': 0, 'authorize': 1}, 'set_defaults')):
                            cases.append(ec.enforce_case([('p:x', ev.role('test'))], call, {}, abstract, dflt=('opt', None),
                                                         registered=[('p:x', list(scopes))], enforce_scope=enf, want='c08', creds_obj=obj,
                                                         extra={'_rep': rep, '_scopes': list(scopes)}, via=via))
    # scope types come from the registered default also when that default was merged with a
    # deprecated predecessor (loader traces carry the scope probe "scopeblk" at every load)
    from checks import loader_common as lc
    for variant, en in (('renamed', False), ('same', False), ('split', False), ('renamed', True)):
        hs = [[('load', False)], [('write', 'main', 'old'), ('load', False), ('load', True)], [('write', 'd1/a', 'alias'), ('load', False)],
              [('write', 'main', 'new'), ('load', False), ('delete', 'main'), ('load', False)]]
        traces = [lc.run_history(rng, variant, en, h) for h in hs]
        for idx, why, step in lc.judge_traces(ctx, variant, en, traces):
            ctx.violation('scope-gate:after-loading:%s' % why, 'after loading policy files the scope gate of a registered policy is not the one its default declares: ' + why,
                          {'variant': variant, 'enforce_new_defaults': en, 'trace': traces[idx][:step]})
    bad = ec.judge(ctx, cases)
    for c in bad:
        key = 'scope-gate:' + ('by-' + c['call']['by'])
        if c['obs']['o'] == 'raise' and c['obs']['cls'] not in ('InvalidScope', 'PolicyNotAuthorized', 'Custom'):
            key += ':raises:' + c['obs']['cls']
        d = ec.describe(c)
        d['representation'] = c.get('_rep')
        d['scope_types'] = c.get('_scopes')
        ctx.violation(key, 'scope gate outcome differs from the sentence of C08', d)
    ctx.exhaustive = not q
    ctx.cover.update({'table_rows': rows, 'rows_run_x_representations': len(cases),
                      'blocked_cases': sum(1 for c in cases if c['obs']['cls'] == 'InvalidScope')})
    for c in cases[:2] + cases[len(cases) // 2:len(cases) // 2 + 3]:
        s = ec.sample(c)
        s['rep'] = c['_rep']
        s['scopes'] = c['_scopes']
        ctx.sample(s)
