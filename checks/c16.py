"""C16 - a remote http(s) check allows only on an explicit True from the
server.

MC  : spec/MC_Http.tla - every reply body up to MaxBody characters over an
      alphabet around the accepted form x faults x six nesting contexts:
      strip-quotes-and-compare equals the sentence of C16; a fault never
      yields a decision; a short-circuited check sends nothing; the request
      names the enforced policy.
S2C : the transport is replaced below the requests API
      (requests.adapters.HTTPAdapter.send returns a real Response / raises
      Timeout / ConnectionError), so the verdict does not depend on which
      requests entry point the code calls.  Bodies enumerated over the same
      alphabet plus specials, status codes, both content types, TLS-file
      faults, targets with nested values and opaque objects, six nesting
      contexts, three policy names; the prepared request is decoded and
      spec/Conf_Eval.tla (HttpOK) compares decision and request with the
      specification.
"""
import copy
import itertools
import json
import os
import tempfile
import urllib.parse

from harness import ev, tlc
from checks import eval_common as ec

MC_CFG = """SPECIFICATION Spec
CONSTANT MaxBody = %d
INVARIANT InvReplyRule
INVARIANT InvOnlyTrueAllows
INVARIANT InvFaultNeverDecides
INVARIANT InvMissingKeyDenies
INVARIANT InvRequestNamesPolicy
INVARIANT InvOneRequestAtMost
INVARIANT InvShortcutSendsNothing
CHECK_DEADLOCK FALSE
"""

SEEN = []
REPLY = {}


def install_stub():
    import requests
    from requests import adapters

    def send(self, request, **kwargs):
        SEEN.append((request, kwargs))
        f = REPLY.get('fault', 'none')
        if f == 'timeout':
            raise requests.exceptions.ReadTimeout('stub timeout')
        if f == 'slow':
            # a server slower than any configured timeout: the call times out - unless the library did not
            # apply a timeout to this request at all, in which case the late reply arrives
            if kwargs.get('timeout') is not None:
                raise requests.exceptions.ReadTimeout('stub: reply later than the timeout of %r' % (kwargs.get('timeout'),))
        if f == 'connect_timeout':
            raise requests.exceptions.ConnectTimeout('stub timeout')
        if f == 'connection':
            raise requests.exceptions.ConnectionError('stub refused')
        if f == 'ssl':
            raise requests.exceptions.SSLError('stub tls failure')
        r = requests.Response()
        r.status_code = REPLY.get('status', 200)
        r._content = REPLY.get('body', '').encode('utf-8')
        r.encoding = 'utf-8'
        r.url = request.url
        r.request = request
        r.headers['Content-Type'] = REPLY.get('ctype', 'text/plain; charset=utf-8')
        return r
    adapters.HTTPAdapter.send = send


def encj(v):
    """structural JSON encoding (no Python string forms): what a JSON payload
    can carry"""
    if isinstance(v, ev.Opaque) or type(v) is object:
        return {'t': 'o'}
    if isinstance(v, dict):
        return {'t': 'd', 'e': [[ev.cps(str(k)), encj(x)] for k, x in v.items()]}
    if isinstance(v, (list, tuple)):
        return {'t': 'l', 'e': [encj(x) for x in v]}
    return {'t': 's', 's': ev.cps(json.dumps(v))}


def decode_request(req):
    ctype = req.headers.get('Content-Type', '')
    body = req.body
    if isinstance(body, bytes):
        body = body.decode('utf-8')
    if ctype.startswith('application/x-www-form-urlencoded'):
        q = urllib.parse.parse_qs(body, keep_blank_values=True, strict_parsing=True)
        d = {k: json.loads(v[0]) for k, v in q.items()}
        enc = 'form'
    elif ctype.startswith('application/json'):
        d = json.loads(body)
        enc = 'json'
    else:
        d, enc = {}, 'other:' + ctype
    url = req.url
    scheme, rest = url.split(':', 1)
    return {'url': ev.cps(rest), 'scheme': scheme, 'rule': d.get('rule') or '', 'target': encj(d.get('target')),
            'creds': encj(d.get('credentials')), 'enc': enc, '_keys': sorted(d), '_url': url}


BODY_ALPH = ['"', 'T', 'r', 'u', 'e', 't', ' ', '\n']
SPECIAL_BODIES = ['', 'True', '"True"', 'true', 'TRUE', 'True\n', ' True', '"True', 'True"', '""True""', '"Tr"ue"', 'T"rue',
                  '\'True\'', 'true ', '1', 'yes', 'False', 'null', '{"result": true}', '"True"\n', ' "True"', '"Tru\\u0065"',
                  'True' * 3, 'x' * 65536, 'True\x00', '﻿True', 'Тrue', 'True\r\n', '[true]', '"', '""', 'rue', 'Tru']
TARGETS = [{'k': 'x'}, {'k': 'x', 'nested': {'a': [1, {'b': None}], 'c': 1.5}}, {'k': 'x', 'obj': object(), 'n': None},
           {'k': 'x', 'deep': {'o': [object()]}}, {'other': 1}, {'k': 'x-1', 'q': 'with space/slash?&=', 'u': 'é'},
           # keys that look like secrets (the library's debug dump masks such keys in a COPY of the target)
           {'k': 'x', 'password': 'pw1', 'auth_token': 't0', 'nested': {'secret_ref': 's', 'passphrase_hint': [1]}}]
CTX = ['bare', 'not', 'and', 'or', 'shortcut', 'alias', 'or_later', 'nested_or_later', 'not_or_later']


def build(ctxt, scheme, static=False):
    leaf = ev.http(scheme, '//policy.example/v1/', ev.ph('k')) if not static else ev.http(scheme, '//policy.example/v1/check?scope=compute%2Fservers')
    if ctxt == 'bare':
        t = leaf
    elif ctxt == 'not':
        t = ev.Not(leaf)
    elif ctxt == 'and':
        t = ev.And(ev.T, leaf)
    elif ctxt == 'or':
        t = ev.Or(ev.F, leaf)
    elif ctxt == 'shortcut':
        t = ev.Or(ev.T, leaf)
    elif ctxt == 'or_later':
        t = ev.Or(leaf, ev.T)                              # a later alternative would accept: a fault still raises
    elif ctxt == 'nested_or_later':
        t = ev.Or(ev.And(ev.T, leaf), ev.role('r1'))
    elif ctxt == 'not_or_later':
        t = ev.Not(ev.Or(leaf, ev.role('r1')))
    else:
        t = ev.rule('remote')
    return t, leaf


def one(ctx, rng, body, status, fault, ctype, target, ctxt, pname, scheme, by, tls=None, enf_cache={}, static=False, reuse=None):
    from oslo_config import cfg
    from oslo_policy import policy, _parser
    tree, leaf = build(ctxt, scheme, static)
    rules = [(pname, tree), ('remote', leaf)]
    texts = {n: ev.rule_text(t) for n, t in rules}
    # a long-lived enforcer (and its parsed check objects) may be handed in: options then change between calls
    e = reuse if reuse is not None else ev.make_enforcer(texts, ('opt', None))
    e.conf.set_override('remote_content_type', 'application/json' if ctype == 'json' else 'application/x-www-form-urlencoded', group='oslo_policy')
    tmp = None
    spec_fault = fault
    if tls:
        # TLS client / CA file options (https only): a missing file is a fault
        tmp = tempfile.mkdtemp(prefix='verif_tls_')
        good = os.path.join(tmp, 'ok.pem')
        open(good, 'w').write('x')
        missing = os.path.join(tmp, 'missing.pem')
        # every combination of the client certificate / key options being unset, pointing at an
        # existing file, or at a missing one; and the CA file with server verification on
        crt = {'crt_missing': missing, 'crt_only_missing': missing, 'key_only_missing': None, 'key_only_ok': None,
               'crt_only_ok': good}.get(tls, good)
        key = {'key_missing': missing, 'key_only_missing': missing, 'crt_only_missing': None, 'crt_only_ok': None,
               'key_only_ok': good}.get(tls, good)
        if crt is not None:
            e.conf.set_override('remote_ssl_client_crt_file', crt, group='oslo_policy')
        if key is not None:
            e.conf.set_override('remote_ssl_client_key_file', key, group='oslo_policy')
        if tls in ('ca_missing', 'ca_ok'):
            e.conf.set_override('remote_ssl_verify_server_crt', True, group='oslo_policy')
            e.conf.set_override('remote_ssl_ca_crt_file', missing if tls == 'ca_missing' else good, group='oslo_policy')
        if tls.endswith('missing') and scheme == 'https':
            spec_fault = 'tlsfile'
    REPLY.clear()
    REPLY.update({'body': body, 'status': status, 'fault': fault})
    del SEEN[:]
    creds = {'roles': ['r1'], 'user_id': 'u1', 'project_id': 'p1'}
    call = {'by': by, 'name': pname}
    if by == 'check':
        call['tree'] = tree
    try:
        c = ec.enforce_case(rules, call, target, creds, dflt=('opt', None), want='c16', enforcer=e)
    finally:
        if tmp:
            import shutil
            shutil.rmtree(tmp, ignore_errors=True)
    # the stub never saw the request when a TLS pre-check failed
    c['kind'] = 'http'
    c['http'] = {'fault': 'none' if spec_fault == 'none' else 'fault', 'body': ev.cps(body)}
    if c['obs']['o'] == 'raise' and c['obs']['cls'] not in ('PolicyNotAuthorized', 'Custom', 'InvalidScope', 'InvalidContextObject', 'PolicyNotRegistered'):
        c['_raw_cls'] = c['obs']['cls']
        if spec_fault != 'none':
            c['obs']['cls'] = 'CheckRaised'
    reqs = []
    try:
        reqs = [decode_request(r) for r, kw in SEEN]
    except Exception as ex:
        reqs = [{'url': [], 'scheme': 'undecodable', 'rule': '', 'target': {'t': 'o'}, 'creds': {'t': 'o'}, 'enc': 'undecodable:%s' % ex}]
    if spec_fault == 'tlsfile':
        # the specification's log has the request it would have sent; a TLS
        # pre-check failure means nothing was sent: compare nothing
        c['reqs'] = [dict(r) for r in []]
        c['_tls'] = tls
        c['skip_reqs'] = 1
    c['reqs'] = [{k: v for k, v in r.items() if not k.startswith('_')} for r in reqs]
    c['enc'] = ctype
    c['jcreds'] = encj(creds)
    c['jtarget'] = encj(target)
    c['cmp_target'] = 0 if 'deep' in target else 1
    c['nested_opaque'] = 1 if 'deep' in target else 0
    c['_body'] = body[:80]
    c['_status'] = status
    c['_fault'] = fault
    c['_tls'] = tls
    c['_ctxt'] = ctxt
    c['_kwargs'] = [{k: (v if isinstance(v, (int, float, str, bool, type(None))) else repr(v)) for k, v in kw.items()} for r, kw in SEEN]
    return c


def run(ctx):
    q = ctx.quick
    install_stub()
    res = tlc.run('MC_Http', MC_CFG % (3 if q else 5), coverage=not q, timeout=3400)
    ctx.add_mc('MC_Http(MaxBody=%d)' % (3 if q else 5), res)
    rng = ctx.rng
    cases = []
    bodies = list(SPECIAL_BODIES)
    maxn = 3 if q else 5
    allb = [''.join(p) for n in range(1, maxn + 1) for p in itertools.product(BODY_ALPH, repeat=n)]
    # everything built from T r u e and quotes up to length 6/8 is near the accepted form
    near = [''.join(p) for n in range(4, 7 if q else 8) for p in itertools.product(['"', 'T', 'r', 'u', 'e'], repeat=n)
            if 'True' in ''.join(p) or rng.random() < (0.01 if q else 0.05)]
    if q:
        rng.shuffle(allb)
        allb = allb[:250]
        rng.shuffle(near)
        near = near[:250]
    bodies += allb + near
    SENS = ['bare', 'not', 'and', 'or', 'alias']          # contexts in which the reply body decides
    for bi, body in enumerate(bodies + SPECIAL_BODIES):
        status = rng.choice([200, 200, 204, 403, 404, 500])
        ctype = rng.choice(['form', 'json'])
        target = copy.deepcopy(rng.choice(TARGETS))
        # the hand-picked bodies run (twice) under contexts where the body matters; the others mostly so
        ctxt = SENS[bi % len(SENS)] if (bi < len(SPECIAL_BODIES) or bi >= len(bodies) or rng.random() < 0.7) else rng.choice(CTX)
        pname = rng.choice(['p:x', 'compute:get', 'n'])
        scheme = rng.choice(['http', 'https'])
        by = 'check' if (rng.random() < 0.15 and ctxt != 'alias') else 'name'
        ec.set_debug(rng.random() < 0.3)
        cases.append(one(ctx, rng, body, status, 'none', ctype, target, ctxt, pname, scheme, by))
    ec.set_debug(False)
    # static URLs with an escaped percent sign
    for ctxt in CTX:
        for scheme in ('http', 'https'):
            cases.append(one(ctx, rng, rng.choice(['True', 'no']), 200, 'none', rng.choice(['form', 'json']), {'k': 'x'}, ctxt, 'p:x', scheme, 'name', static=True))
    # one long-lived enforcer, the content-type option changed between calls
    for scheme in ('http', 'https'):
        for ctxt in ('bare', 'or', 'alias'):
            tree, leaf = build(ctxt, scheme)
            live = ev.make_enforcer({'p:x': ev.rule_text(tree), 'remote': ev.rule_text(leaf)}, ('opt', None))
            for ctype in ('form', 'json', 'json', 'form', 'json'):
                cases.append(one(ctx, rng, 'True', 200, 'none', ctype, {'k': 'x'}, ctxt, 'p:x', scheme, 'name', reuse=live))
            # consecutive calls whose targets differ only in the TYPE of a value (1 / True / 1.0 / '1' are equal
            # or look alike in Python, not in what the remote server is sent), and with secret-like keys under debug
            for ctype in ('json', 'form'):
                for tv in (1, True, 1.0, '1', 0, False, None, 'None', [1], [True]):
                    cases.append(one(ctx, rng, 'True', 200, 'none', ctype, {'k': 'x', 'public': tv}, ctxt, 'p:x', scheme, 'name', reuse=live))
                for dbg in (True, False, True):
                    ec.set_debug(dbg)
                    cases.append(one(ctx, rng, 'True', 200, 'none', ctype, copy.deepcopy(TARGETS[-1]), ctxt, 'p:x', scheme, 'name', reuse=live))
                ec.set_debug(False)
    # targets holding several values that cannot be serialised (service objects): every one of them is replaced,
    # wherever it stands in the target
    for ctype in ('json', 'form'):
        for scheme in ('http', 'https'):
            for ctxt in ('bare', 'or_later', 'alias', 'not'):
                for tgt in ({'k': 'x', 'o1': object(), 'o2': object()}, {'o1': object(), 'k': 'x', 'mid': 1, 'o2': object(), 'o3': object()},
                            {'k': 'x', 'n': None, 'o1': object(), 'z': 'last'}):
                    cases.append(one(ctx, rng, 'True', 200, 'none', ctype, tgt, ctxt, 'p:x', scheme, 'name'))
    n_body = len(cases)
    # faults x contexts x bodies that would allow
    for fault in ['timeout', 'connect_timeout', 'connection', 'ssl', 'slow']:
        for ctxt in CTX:
            for scheme in ('http', 'https'):
                for body in ['True', 'other']:
                    cases.append(one(ctx, rng, body, 200, fault, rng.choice(['form', 'json']), dict(rng.choice(TARGETS[:3])), ctxt, 'p:x', scheme, 'name'))
    for tls in ['crt_missing', 'key_missing', 'ca_missing', 'files_ok', 'crt_only_missing', 'key_only_missing', 'crt_only_ok', 'key_only_ok', 'ca_ok']:
        for ctxt in CTX:
            for scheme in ('http', 'https'):
                cases.append(one(ctx, rng, 'True', 200, 'none', 'form', {'k': 'x'}, ctxt, 'p:x', scheme, 'name', tls=tls))
    stripped = []
    for c in cases:
        d = ec.strip_case(c)
        if d.pop('skip_reqs', 0):
            d['reqs'] = []
            d['_noreq'] = 1
        stripped.append(d)
    # TLS pre-check failures: the spec's expected log contains the request; mark to skip the comparison
    for d, c in zip(stripped, cases):
        d['tlsfault'] = 1 if c.get('skip_reqs') else 0
        d.pop('_noreq', None)
    rejected, st = tlc.judge_cases('Conf_Eval', stripped, chunk=4000, timeout=3000)
    ctx.traces += len(cases)
    from harness import canary
    from checks import canaries
    canary.probe(ctx, 'Conf_Eval(http)', [d for i, d in enumerate(stripped, 1) if i not in set(rejected)], canaries.evalcase,
                 canary.by_cases('Conf_Eval'))
    for i in rejected:
        c = cases[i - 1]
        o = c['obs']
        if not o['target_unchanged']:
            key = 'caller-target-modified'
        elif o['o'] == 'ret' and o['v'] == 1 and c['_fault'] != 'none':
            key = 'fault-allows'
        elif o['o'] == 'ret' and o['v'] == 1:
            key = 'reply-allows'
        elif o['o'] == 'raise' and c['_fault'] == 'none' and not c.get('skip_reqs'):
            key = 'raises:' + c.get('_raw_cls', o['cls'])
        else:
            key = 'decision-or-request'
        d = ec.describe(c)
        d.update({'reply_body': c['_body'], 'status': c['_status'], 'fault': c['_fault'], 'tls': c['_tls'], 'context': c['_ctxt'],
                  'requests_seen': [{k: (ev.uncps(v) if k == 'url' else v) for k, v in r.items() if k in ('url', 'rule', 'enc', 'scheme')} for r in c['reqs']],
                  'transport_kwargs': c['_kwargs']})
        ctx.violation(key, 'decision of a rule with an http(s) check, or the request it sent, differs from the specification', d)
    ctx.cover.update({'reply_bodies': n_body, 'fault_cases': len(cases) - n_body, 'allowing_cases': sum(1 for c in cases if c['obs'].get('v') == 1),
                      'requests_decoded': sum(len(c['reqs']) for c in cases)})
    for c in cases[:4] + cases[n_body:n_body + 3]:
        ctx.sample({'rule': c['_texts'], 'reply': c['_body'], 'status': c['_status'], 'fault': c['_fault'], 'obs': c['obs'],
                    'request': [{k: (ev.uncps(v) if k == 'url' else v) for k, v in r.items() if k in ('url', 'rule', 'enc')} for r in c['reqs']]})
    ctx.assumptions += ['the transport is replaced at requests.adapters.HTTPAdapter.send (below the requests API); replies are UTF-8 text',
                        'payload equality of the target is not checked when an opaque object is nested below the top level (the statement only says such objects are blanked); the caller\'s target must still be unmodified']
