"""C03 - unknown policy names fail closed; the default rule is the only
fallback.

MC  : spec/MC_Default.tla - every rule set over {n1, n2, d} with bodies from
      a pool, every default-rule configuration, every queried name: Enforce
      (as the code) equals the decision table of C03; a defined name is never
      decided by the default; the empty rule set denies.
S2C : the same table enumerated against real Enforcers (default rule through
      the constructor, through the policy_default_rule option, as a check
      object, unset); each execution judged by spec/Conf_Eval.tla.
"""
import itertools

from harness import ev, tlc
from checks import eval_common as ec
from checks.eval_common import set_debug

MC_CFG = """SPECIFICATION Spec
CONSTANT Big = %d
INVARIANT InvDefaultTable
INVARIANT InvDefinedNeverDefault
INVARIANT InvEmptyDenies
INVARIANT InvAliasTransparent
INVARIANT InvRaiseIffFalsy
INVARIANT InvRaisedClass
INVARIANT InvNeverFalsyUnderDoRaise
CHECK_DEADLOCK FALSE
"""

R = ev.role('r')
BODIES = [None, ev.T, ev.F, R, ev.rule('n1'), ev.rule('n2'), ev.rule('d'), ev.Not(ev.rule('n2')),
          ev.And(R, ev.rule('n2')), ev.Or(ev.rule('d'), R)]
DEFAULTS = [('opt', None), ('opt', ''), ('name', 'd'), ('opt', 'd'), None, ('name', 'n2'), ('opt', 'zz'), ('name', 'zz'),
            ('check', ev.T), ('check', R), ('check', ev.F)]


def refs(t, acc):
    if t['k'] == 'rule':
        acc.add(t['name'])
    elif t['k'] == 'not':
        refs(t['a'], acc)
    elif t['k'] in ('and', 'or'):
        for c in t['as']:
            refs(c, acc)
    return acc


def cyclic(rules, dflt):
    """does following references (with the default-rule fallback) loop?"""
    d = dict(rules)
    dname = None
    if dflt is None:
        dname = 'default'
    elif dflt[0] in ('name', 'opt'):
        dname = dflt[1]

    def resolve(n):
        if n in d:
            return n
        if dflt and dflt[0] == 'check':
            return '<dflt>'
        if dname and dname in d:
            return dname
        return None
    graph = {n: {resolve(x) for x in refs(t, set())} - {None} for n, t in d.items()}
    if dflt and dflt[0] == 'check':
        graph['<dflt>'] = {resolve(x) for x in refs(dflt[1], set())} - {None}
    state = {}

    def dfs(n):
        if state.get(n) == 1:
            return True
        if state.get(n) == 2:
            return False
        state[n] = 1
        for m in graph.get(n, ()):
            if dfs(m):
                return True
        state[n] = 2
        return False
    return any(dfs(n) for n in list(graph))


def removal_enforcer(file_rules, defaults, dflt):
    """an enforcer reading ``file_rules`` from its policy file, with ``defaults`` registered as
    deprecated-for-removal policies"""
    import atexit
    import json
    import os
    import shutil
    import tempfile
    from oslo_config import cfg
    from oslo_policy import policy
    conf = cfg.ConfigOpts()
    conf([], project='verif', default_config_files=[], default_config_dirs=[])
    d = tempfile.mkdtemp(prefix='verif_enf_')
    atexit.register(shutil.rmtree, d, True)
    main = os.path.join(d, 'policy.json')
    with open(main, 'w') as f:
        json.dump(file_rules, f)
    kw = {}
    if dflt is not None and dflt[0] == 'name':
        kw['default_rule'] = dflt[1]
    e = policy.Enforcer(conf, policy_file=main, **kw)
    if dflt is not None and dflt[0] == 'opt':
        conf.set_override('policy_default_rule', dflt[1], group='oslo_policy')
        e.default_rule = None
        e = policy.Enforcer(conf, policy_file=main)
    for n, text in defaults:
        e.register_default(policy.RuleDefault(n, text, deprecated_for_removal=True, deprecated_reason='going away', deprecated_since='N'))
    return e


def run(ctx):
    q = ctx.quick
    res = tlc.run('MC_Default', MC_CFG % (0 if q else 1), coverage=not q, timeout=3000)
    ctx.add_mc('MC_Default(Big=%d)' % (0 if q else 1), res)
    if res.coverage and res.coverage.get('Evaluate', (0, 0))[0] == 0:
        raise RuntimeError('MC_Default: Evaluate never taken')
    rng = ctx.rng
    cases = []
    names = ['n1', 'n2', 'd']
    combos = list(itertools.product(range(len(BODIES)), repeat=3))
    rng.shuffle(combos)
    take = 160 if q else len(combos)
    # always include the risky rows: empty rule set, default names an undefined rule
    must = [(0, 0, 0), (1, 0, 0), (0, 0, 3), (2, 0, 1), (3, 0, 0)]
    n_cyc = 0
    for combo in must + combos[:take]:
        rules = [(names[i], BODIES[b]) for i, b in enumerate(combo) if BODIES[b] is not None]
        for dflt in DEFAULTS:
            if cyclic(rules, dflt):
                n_cyc += 1
                continue
            for query in ['n1', 'n2', 'd', 'zz']:
                for roles in ([], ['r']):
                    dr = rng.random() < 0.25
                    via = rng.choice(['rules_obj', 'rules_obj', 'own_default', 'no_default', 'loaded', 'dict', 'ctor', 'ctor_own_default', 'main_file', 'dir_only'])
                    set_debug(rng.random() < 0.25)
                    cases.append(ec.enforce_case(rules, {'by': 'name', 'name': query, 'doraise': dr}, {}, {'roles': roles},
                                                 dflt=dflt, want='c03', via=via))
    # the policy_default_rule option set the way a service sets it (one opts.set_defaults call that also names
    # the policy file)
    for dflt in (('opt', 'd'), ('opt', 'zz'), ('opt', None), ('opt', 'n2')):
        for rules in ([('d', ev.T), ('default', ev.F)], [('d', ev.F), ('default', ev.T)], [('n2', R), ('default', ev.T)], [('default', ev.T)]):
            for query in ('n1', 'd', 'zz', 'n2'):
                for roles in ([], ['r']):
                    cases.append(ec.enforce_case(rules, {'by': 'name', 'name': query, 'doraise': len(roles)}, {}, {'roles': roles},
                                                 dflt=dflt, want='c03', via='set_defaults'))
    # a registered default is a definition whatever its flags say: one marked deprecated_for_removal (and not
    # overridden in any file) still decides its own name - the default rule does not
    for dflt_body, own in ((ev.T, ev.F), (ev.F, ev.T), (ev.T, R), (ev.F, R)):
        for dflt in (('opt', 'd'), None, ('name', 'd')):
            dname = 'default' if dflt is None else 'd'
            for query in ('n1', 'zz', dname):
                for roles in ([], ['r']):
                    e = removal_enforcer({dname: ev.rule_text(dflt_body)}, [('n1', ev.rule_text(own))], dflt)
                    cases.append(ec.enforce_case([(dname, dflt_body), ('n1', own)], {'by': 'name', 'name': query}, {}, {'roles': roles},
                                                 dflt=dflt, want='c03', enforcer=e,
                                                 extra={'_via': 'policy file defining %s only; n1 is a registered default marked deprecated_for_removal' % dname}))
    # sessions: the rule store of one long-lived enforcer is changed through set_rules
    # (replace or merge) and clear between calls; a queried name is decided by the store
    # as it is at the time of the call (spec/Trace_Store.tla)
    sessions = []
    for i in range(60 if q else 1500):
        pool = [ev.T, ev.F, R, ev.rule('d'), ev.Not(ev.rule('n2')), ev.rule('zz'), ev.Not(ev.rule('zz'))]
        # (a name that is referenced while undefined may become defined later - 'zz' too)
        universe = ['n1', 'n2', 'd', 'default', 'zz']
        start = [(n, rng.choice(pool)) for n in rng.sample(universe, rng.randint(0, 3))]
        dflt = rng.choice([None, ('name', 'd'), ('opt', 'd'), ('opt', None), ('check', R)])
        if cyclic(start, dflt):
            continue
        fb = rng.random() < 0.35 and bool(start)
        sess = ec.Session(start, dflt, via=rng.choice(['rules_obj', 'dict']), file_backed=fb)
        for step in range(rng.randint(3, 7)):
            r = rng.random()
            if r < 0.45:
                newr = [(n, rng.choice(pool)) for n in rng.sample(universe, rng.randint(0 if not fb else 1, 2))]
                ow = rng.random() < 0.4 and not fb
                merged = newr if ow else list(dict(dict(sess.cur), **dict(newr)).items())
                if cyclic(merged, dflt):
                    continue
                sess.set_rules(newr, overwrite=ow, how=rng.choice(['rules_obj', 'dict', 'own_default']), scribble=rng.random() < 0.5)
            # (Enforcer.clear() is not part of these sessions: it resets the enforcer's default-rule
            #  attribute but the rule store keeps the old one until the next replacing set_rules; the
            #  statement does not say which of the two "is configured" then)
            for _ in range(rng.randint(1, 2)):
                sess.enforce({'by': 'name', 'name': rng.choice(['n1', 'n2', 'd', 'zz', 'default', 'yy'])}, {}, {'roles': rng.choice([[], ['r']])})
        sess.close()
        sessions.append(sess)
    # the rule the default name points at is redefined in place (merge) between two look-ups of unknown names
    for dflt, dname in ((('name', 'd'), 'd'), (('opt', 'd'), 'd'), (None, 'default')):
        for first, second in ((ev.T, ev.F), (ev.F, ev.T), (R, ev.Not(R))):
            for fb in (False, True):
                sess = ec.Session([(dname, first), ('n1', ev.rule('yy'))], dflt, via='rules_obj', file_backed=fb)
                for name in ('yy', 'n1', 'yy'):
                    sess.enforce({'by': 'name', 'name': name}, {}, {'roles': ['r']})
                sess.set_rules([(dname, second)], overwrite=False, how=rng.choice(['rules_obj', 'dict']))
                for name in ('yy', 'n1', dname, 'yy'):
                    sess.enforce({'by': 'name', 'name': name}, {}, {'roles': rng.choice([[], ['r']])})
                sess.close()
                sessions.append(sess)
    # a name that is referenced while undefined (no usable default) and defined later
    for dflt in (('opt', None), ('name', 'd'), None):
        for body in (ev.rule('zz'), ev.Not(ev.rule('zz')), ev.Or(ev.F, ev.rule('zz'))):
            for later in (ev.T, R):
                sess = ec.Session([('n1', body), ('n2', ev.rule('n1'))], dflt, via='dict')
                for name in ('n1', 'n2', 'zz'):
                    sess.enforce({'by': 'name', 'name': name}, {}, {'roles': ['r']})
                sess.set_rules([('zz', later)], overwrite=False, how='dict')
                for name in ('n1', 'n2', 'zz', 'n1'):
                    sess.enforce({'by': 'name', 'name': name}, {}, {'roles': rng.choice([[], ['r']])})
                sessions.append(sess)
    for si, evi in ec.judge_sessions(ctx, sessions):
        ctx.violation('session:decision-ignores-current-rule-store', 'after the rule store was changed through the API a decision is not the one the current store gives',
                      {'history': sessions[si].log[:40], 'failing_event_index': evi, 'default_rule': repr(sessions[si].dflt)})
    ctx.cover['sessions'] = len(sessions)
    set_debug(False)
    # a name becomes defined when its default is registered, also after the enforcer's first use
    from checks import loader_common as lc
    for variant, en in (('plain', True), ('split', False), ('renamed', True)):
        hs = [[('load', False), ('register',), ('load', False)], [('write', 'main', 'old'), ('load', False), ('register',), ('load', False), ('load', True)]]
        traces = [lc.run_history(rng, variant, en, h, late=True) for h in hs]
        for idx, why, step in lc.judge_traces(ctx, variant, en, traces):
            ctx.violation('late-registration:%s' % why, 'a policy whose default was registered after the first use of the enforcer is not decided by its definition: ' + why,
                          {'variant': variant, 'enforce_new_defaults': en, 'trace': traces[idx][:step]})
    bad = ec.judge(ctx, cases)
    for c in bad:
        qn = c['call']['name']
        defined = any(r[0] == qn for r in c['st']['rules'])
        key = 'defined-name' if defined else ('undefined-name:dflt=%s' % c['st']['dflt']['t'])
        if c['obs']['o'] == 'raise' and not c['call']['doraise']:
            key += ':raises:' + c['obs']['cls']
        ctx.violation(key, 'decision for a policy name differs from the default-rule table of C03', ec.describe(c))
    ctx.exhaustive = not q
    ctx.cover.update({'rule_sets': len(must) + take, 'default_configurations': len(DEFAULTS), 'skipped_cyclic': n_cyc,
                      'allowing_cases': sum(1 for c in cases if c['obs'].get('v') == 1)})
    for c in cases[:3] + cases[len(cases) // 2:len(cases) // 2 + 4]:
        ctx.sample(ec.sample(c))
    ctx.assumptions += ['rule sets whose references loop (counting the default-rule fallback) are excluded here; they are C13\'s subject']
