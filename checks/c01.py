"""C01 - rule expressions decide exactly as the documented boolean language
says.

MC   : spec/MC_Parser.tla - the shift-reduce machine as implemented, on every
       token sequence up to MaxLen, against the recursive-descent grammar.
C2S  : the same complete space (and random expressions up to ~60 tokens with
       lexical variants, and list-of-lists shapes) run through the real
       parse_rule / Rules.load / Enforcer.enforce; spec/Conf_Parser.tla has
       TLC compute the grammar's decision table for each recorded input and
       compare it with the table the code produced.
"""
from harness import lang, tlc
from checks import parser_common as pc

MC_CFG = """SPECIFICATION Spec
CONSTANTS MaxLen = %d
 NConst = %d
INVARIANT StepwiseIsClosedForm
INVARIANT ParserSound
INVARIANT FailClosed
INVARIANT RoundTrip
CHECK_DEADLOCK FALSE
"""


def mc(ctx, maxlen, nconst, name):
    res = tlc.run('MC_Parser', MC_CFG % (maxlen, nconst), coverage=not ctx.quick, timeout=3000)
    ctx.add_mc(name, res)
    return res


def key_of(case):
    if case['kind'] == 'list':
        return 'list-rule:' + ('raise' if case['raised'] else 'decision')
    if case['raised']:
        return 'text:raises'
    return 'text:decision-differs-from-grammar'


def run(ctx):
    q = ctx.quick
    mc(ctx, 5 if q else 7, 0, 'MC_Parser(MaxLen=%d)' % (5 if q else 7))
    mc(ctx, 4 if q else 5, 1, 'MC_Parser(MaxLen=%d,consts+strings)' % (4 if q else 5))

    cases = []
    n_ex = 5 if q else 7
    for c in pc.exhaustive_text_cases(n_ex, ctx.rng, variants=1 if q else 2, want='c01'):
        cases.append(c)
    n_exh = len(cases)
    # with constants and quoted strings in the alphabet, shorter bound
    syms = (lang.LP, lang.RP, lang.AND, lang.OR, lang.NOT, lang.STR, lang.TRUE_TOK, lang.FALSE_TOK, lang.LEAF0)
    for toks in lang.all_token_seqs(3 if q else 5, syms):
        cases.append(pc.record_text(toks, lang.render(toks, ctx.rng, wide=True), 'parse', 'c01'))
    # random expressions far beyond the bound, with lexical variants and
    # redundant grouping
    n_rand = 300 if q else 8000
    for i in range(n_rand):
        size = ctx.rng.choice([3, 5, 8, 12, 16, 20])
        k = ctx.rng.randint(1, 7 if q else 8)
        tree = lang.random_tree(ctx.rng, size, k)
        for v in range(2 if q else 4):
            toks = lang.tree_tokens(tree, ctx.rng)
            route = ctx.rng.choice(['parse', 'parse', 'parse', 'enforce', 'load'])
            cases.append(pc.record_text(toks, lang.render(toks, ctx.rng, wide=True), route, 'c01'))
    lang.install_http_stub()
    from harness import ev as _ev
    _ev.install_probes()
    # every kind of leaf check (not only role:), and the same expression spelled with upper-case attribute /
    # rule / placeholder names right after the lower-case one: a different rule, decided on its own keys
    for i in range(120 if q else 3000):
        off = ctx.rng.randrange(6)
        kinds = [lang.LeafEnv.WITH_HTTP + lang.LeafEnv.EXTRA, lang.LeafEnv.ALL + lang.LeafEnv.EXTRA, lang.LeafEnv.ALL][i % 3]
        lo, up = lang.LeafEnv(kinds, off), lang.LeafEnv(kinds, off, upper=True)
        tree = lang.random_tree(ctx.rng, ctx.rng.choice([2, 3, 5, 8]), ctx.rng.randint(1, 5))
        toks = lang.tree_tokens(tree, ctx.rng)
        route = ctx.rng.choice(['parse', 'parse', 'enforce', 'load'])
        for env in ((lo, up) if ctx.rng.random() < 0.5 else (up, lo)):
            cases.append(pc.record_text(toks, lang.render(toks, ctx.rng, leaf=env.text, wide=True), route, 'c01', lenv=env))
    # an operator chain, then a parenthesised group, then another operator: every combination of
    # and / or for the four operator positions, chains of 1-3 operands, optionally negated parts
    L = [lang.LEAF0 + i for i in range(1, 7)]
    for chain in (1, 2, 3):
        for op1 in (lang.AND, lang.OR):
            for op2 in (lang.AND, lang.OR):
                for gop in (lang.AND, lang.OR):
                    for op3 in (lang.AND, lang.OR, None):
                        for neg in (0, 1, 2):
                            toks = [L[0]]
                            for i in range(1, chain):
                                toks += [op1, L[i]]
                            toks += [op2] + ([lang.NOT] if neg == 1 else []) + [lang.LP, L[3], gop] + ([lang.NOT] if neg == 2 else []) + [L[4], lang.RP]
                            if op3 is not None:
                                toks += [op3, L[5]]
                            cases.append(pc.record_text(toks, lang.render(toks, ctx.rng, wide=True), ctx.rng.choice(['parse', 'enforce', 'load']), 'c01'))
    # the same parenthesised group several times in one rule
    for i in range(250 if q else 4000):
        toks = lang.repeated_group_tokens(ctx.rng)
        cases.append(pc.record_text(toks, lang.render(toks, ctx.rng, wide=True), ctx.rng.choice(['parse', 'parse', 'enforce', 'load']), 'c01'))
    # the oslopolicy-checker tool evaluates the same language: fixed sentences (constants, negations, mixed
    # operators, grouping) with the printed verdict as the decision
    A, B, C = lang.LEAF0 + 1, lang.LEAF0 + 2, lang.LEAF0 + 3
    for toks in ([lang.TRUE_TOK], [lang.FALSE_TOK], [lang.NOT, lang.TRUE_TOK], [lang.NOT, lang.FALSE_TOK], [A], [lang.NOT, A], [A, lang.AND, B], [A, lang.OR, B],
                 [A, lang.OR, B, lang.AND, C], [lang.NOT, A, lang.AND, B], [lang.LP, A, lang.OR, B, lang.RP, lang.AND, lang.NOT, C],
                 [lang.NOT, lang.LP, A, lang.AND, lang.FALSE_TOK, lang.RP], [A, lang.AND, lang.TRUE_TOK, lang.OR, lang.FALSE_TOK], []):
        cases.append(pc.record_text(toks, lang.render(toks, ctx.rng, wide=True) if toks else '', 'checker', 'c01'))
    for outer in ([], [[A, B], [C]], [[lang.FALSE_TOK], [A]], [[lang.TRUE_TOK, A]], [[A], [B]]):
        cases.append(pc.record_list(outer, pc.list_value(outer, ctx.rng), 'checker', 'c01'))
    n_text = len(cases)
    # list-of-lists shapes
    atoms = [lang.LEAF0 + 1, lang.LEAF0 + 2, lang.TRUE_TOK, lang.FALSE_TOK]
    shapes = list(pc.list_shapes(2 if q else 3, 2, atoms))
    if not q:
        shapes += list(pc.list_shapes(2, 3, atoms + [lang.LEAF0 + 3]))
    else:
        extra = list(pc.list_shapes(3, 2, atoms))
        ctx.rng.shuffle(extra)
        shapes += extra[:1500]
    for outer in shapes:
        route = ctx.rng.choice(['parse', 'parse', 'enforce', 'load'])
        val = pc.list_value(outer, ctx.rng)
        if route in ('parse', 'enforce') and ctx.rng.random() < 0.3:
            val = pc.tuplify(val, ctx.rng)
        cases.append(pc.record_list(outer, val, route, 'c01'))
    bad = pc.judge(ctx, cases)
    for c in bad:
        ctx.violation(key_of(c), 'decision of the real parser/evaluator differs from the documented grammar',
                      pc.describe(c))
    ctx.exhaustive = True
    ctx.cover.update({
        'exhaustive_token_sequences_up_to': n_ex,
        'exhaustive_cases': n_exh, 'text_cases': n_text, 'list_cases': len(cases) - n_text,
        'random_expressions': n_rand,
        'nontrivial_cases': sum(1 for c in cases if c['table']),
        'longest_input_tokens': max(len(c.get('toks', [])) for c in cases),
    })
    for c in cases[:3] + cases[n_exh:n_exh + 2] + cases[n_text - 3:n_text] + cases[-2:]:
        ctx.sample({k: c[k] for k in c if k in ('kind', 'toks', 'outer', '_text', '_value', 'table', '_printed', '_route')})
    ctx.assumptions += [
        'leaf i is realised as the check role:r<i>; its truth is controlled through creds["roles"]',
        'rule text is produced from abstract token sequences by harness/lang.py (gamma); the library tokenizer is never used to tell the spec what the input was',
        'whitespace-only rule text is not constrained by the statement (only the empty string is)',
    ]
