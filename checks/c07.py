"""C07 - enforce either returns the decision or raises the requested
exception.

MC  : spec/MC_Scope.tla + spec/MC_Default.tla - over their complete tables:
      do_raise off returns falsy exactly when do_raise on raises; the raised
      class is the caller's / PolicyNotAuthorized / InvalidScope; an allowed
      request never raises; do_raise never returns falsy; authorize on an
      unregistered name raises PolicyNotRegistered with an empty effect log.
C2S : rule sets from the C06 generator (references, probes, roles) and from
      the leaf generators, crossed with do_raise on/off, custom exception
      class with extra positional/keyword arguments, rule by name / as check
      object, registered or not (authorize), scope mismatch, bad credential
      type, and the library's debug logging really switched on or off;
      every call judged by spec/Conf_Eval.tla, the two modes on the same
      input also as a pair (PairOK); the caller's target is snapshotted.
"""
import logging

from harness import ev, tlc
from checks import eval_common as ec
from checks import c06, c03, c08


from checks.eval_common import set_debug  # noqa: E402


TARGETS = [{}, {'project_id': 'p1', 'k': 'v'}, {'password': 'pw1', 'target.secret.creator_id': 'u9', 'auth_token': 'tok'}, {'nested': {'a': [1, {'b': None}]}, 'password': 'secret'},
           {'obj': ev.Opaque(), 'k': 'v'}, {'t': True, 'n': None, 'f': 1.5}]


def run(ctx):
    q = ctx.quick
    ev.install_probes()
    res = tlc.run('MC_Scope', c08.MC_CFG, timeout=3000)
    ctx.add_mc('MC_Scope', res)
    res = tlc.run('MC_Default', c03.MC_CFG % 0, timeout=3000)
    ctx.add_mc('MC_Default(Big=0)', res)
    rng = ctx.rng
    cases = []
    n_pairs = 0
    try:
        for g in range(50 if q else 1200):
            nn = rng.randint(1, 5) if rng.random() < 0.85 else 0        # also: no named rule at all
            names = ['p:n%d' % i for i in range(1, nn + 1)]
            pid = [0]
            rules = []
            for i, n in enumerate(names):
                body = c06.rand_body(rng, names[i + 1:], rng.choice([1, 2, 3, 4]), pid, undef=bool(names[i + 1:]))
                if rng.random() < 0.25:
                    # a check that substitutes a target key whose name looks like a secret
                    # (debug logging masks such keys in its dump; the decision must not care)
                    sk = rng.choice(['password', 'target.secret.creator_id', 'auth_token'])
                    body = ev.Or(body, ev.generic('sk', ev.ph(sk))) if rng.random() < 0.5 else ev.generic('sk', ev.ph(sk))
                rules.append((n, body))
            dflt = rng.choice([('opt', None), ('name', names[-1] if names else 'p:zz'), ('check', ev.role('r1')), None])
            reg_names = [n for n in names if rng.random() < 0.6]
            registered = [(n, rng.choice([[], [], ['project'], ['system'], ['system', 'project'], ['domain']])) for n in reg_names]
            enforce_scope = rng.random() < 0.8
            # one long-lived enforcer per rule set: the calls below form a history on it
            enf = ev.make_enforcer({n: ev.rule_text(t) for n, t in rules}, dflt,
                                   [(n, list(sc), ev.rule_text(dict(rules)[n])) for n, sc in registered], enforce_scope)
            for k in range(3 if q else 4):
                qn = rng.choice(names + ['p:zz'])
                creds = dict(rng.choice(c06.CREDS))
                creds['sk'] = rng.choice(['pw1', 'u9', 'tok', 'other'])
                r = rng.random()
                if r < 0.3:
                    creds[rng.choice(['system_scope', 'system'])] = 'all'
                    if 'system' in creds and rng.random() < 0.5:
                        creds['system_scope'] = None          # (a context dumped with to_dict() carries the key with no value)
                elif r < 0.5:
                    creds['domain_id'] = 'd'
                else:
                    creds['project_id'] = 'p'
                target = rng.choice(TARGETS)
                if any('%(password)s' in t or 'secret' in t or 'auth_token' in t for t in (ev.rule_text(b) for _, b in rules)) and rng.random() < 0.8:
                    target = TARGETS[2]
                    creds['sk'] = rng.choice(['pw1', 'u9', 'tok'])
                by = 'check' if rng.random() < (0.2 if names else 0.7) else 'name'
                base = {'by': by, 'name': qn}
                if by == 'check':
                    base['tree'] = dict(rules).get(qn, rng.choice([ev.role('r1'), ev.T, ev.Or(ev.role('r1'), ev.role('r2'))]))
                auth = 1 if (by == 'name' and rng.random() < 0.35) else 0
                credskind = 'bad' if rng.random() < 0.05 else 'map'
                creds_obj = rng.choice([None, ['roles'], 'creds', 42]) if credskind == 'bad' else None
                if credskind == 'bad' and creds_obj is None:
                    creds_obj = ('x',)
                xargs = [rng.randint(0, 9)] * rng.randint(0, 2) + (['s'] if rng.random() < 0.3 else [])
                xkw = {'detail': 'd%d' % k} if rng.random() < 0.5 else {}
                debug = rng.random() < 0.5
                set_debug(debug)
                outs = []
                excls = rng.randrange(len(ev.CUSTOM_CLASSES))
                for mode in ({'doraise': 0}, {'doraise': 1}, {'doraise': 1, 'custom': 1, 'xargs': xargs, 'xkw': xkw, 'excls': excls},
                             {'doraise': 0, 'custom': 1, 'xargs': xargs, 'xkw': xkw, 'excls': excls},
                             {'doraise': 1, 'xargs': xargs if rng.random() < 0.5 else [], 'xkw': xkw or {'action': 'x'}}):
                    call = dict(base, authorize=auth, credskind=credskind, **mode)
                    c = ec.enforce_case(rules, call, target, creds, dflt=dflt, registered=registered, enforce_scope=enforce_scope,
                                        checklog=1, want='c07', creds_obj=creds_obj, extra={'_debug': debug},
                                        enforcer=enf if rng.random() < 0.85 else None)
                    cases.append(c)
                    outs.append(c)
                # the same input with debug logging flipped: outcome must be identical
                set_debug(not debug)
                c2 = ec.enforce_case(rules, dict(base, authorize=auth, credskind=credskind, doraise=0), target, creds, dflt=dflt,
                                     registered=registered, enforce_scope=enforce_scope, checklog=1, want='c07', creds_obj=creds_obj,
                                     extra={'_debug': not debug}, enforcer=enf)
                cases.append(c2)
                cases.append({'kind': 'same', 'a': {k2: outs[0]['obs'][k2] for k2 in ('o', 'v', 'cls')}, 'b': {k2: c2['obs'][k2] for k2 in ('o', 'v', 'cls')},
                              '_what': 'debug logging on/off', '_call': outs[0]['_call'], '_texts': outs[0]['_texts'], '_creds': outs[0]['_creds'], '_target': outs[0]['_target']})
                for b in (outs[1], outs[2], outs[4]):
                    cases.append({'kind': 'pair', 'a': outs[0]['obs'], 'b': b['obs'], '_call': b['_call'], '_texts': b['_texts'],
                                  '_creds': b['_creds'], '_target': b['_target'], '_dflt': b['_dflt'], '_registered': b['_registered']})
                    n_pairs += 1
        # plain-dict credentials with either spelling of the system scope (and the other key present without a value)
        for scopes in (['system'], ['project'], ['domain', 'system']):
            for sc_creds in ({'system': 'all'}, {'system': 'all', 'system_scope': None}, {'system_scope': 'all'}, {'system_scope': 'all', 'system': None},
                             {'system_scope': None, 'project_id': 'p'}, {'system': None, 'domain_id': 'd'}):
                rules = [('p:x', ev.role('r1'))]
                for roles in (['r1'], []):
                    creds = dict({'roles': roles, 'user_id': 'u'}, **sc_creds)
                    for mode in ({'doraise': 0}, {'doraise': 1}, {'doraise': 1, 'custom': 1, 'xargs': [], 'xkw': {'k': 1}}):
                        for by in ('name', 'check', 'authorize'):
                            call = dict({'by': 'check' if by == 'check' else 'name', 'name': 'p:x', 'credskind': 'map', 'authorize': 1 if by == 'authorize' else 0}, **mode)
                            if by == 'check':
                                call['tree'] = ev.role('r1')
                            cases.append(ec.enforce_case(rules, call, {}, creds, dflt=('opt', None), registered=[('p:x', scopes)], enforce_scope=True,
                                                         check_scopes=scopes if by == 'check' else (), checklog=1, want='c07'))
        # custom checks that answer with every kind of falsy / truthy value (None, 0, '', [], {}, 0.0 / 'yes', 1,
        # [0], ...): falsy means denied, whatever the value - alone, behind an alias, under and / or
        for pidn in range(7):
            for arity in (4, 3):
                leaf = ev.probe(pidn, arity, 'f1')
                for shape in ('self', 'alias', 'and', 'or'):
                    rules = {'self': [('p:x', leaf)], 'alias': [('p:x', ev.rule('p:y')), ('p:y', leaf)],
                             'and': [('p:x', ev.And(ev.T, leaf))], 'or': [('p:x', ev.Or(ev.F, leaf))]}[shape]
                    if q and (pidn + arity + len(shape)) % 2:
                        continue
                    for flags in ([], ['f1']):
                        for mode in ({'doraise': 0}, {'doraise': 1}, {'doraise': 1, 'custom': 1, 'xargs': [1], 'xkw': {}}):
                            for by in ('name', 'check'):
                                call = dict({'by': by, 'name': 'p:x', 'credskind': 'map'}, **mode)
                                if by == 'check':
                                    call['tree'] = dict(rules)['p:x']
                                cases.append(ec.enforce_case(rules, call, {}, {'roles': [], 'f': flags}, dflt=('opt', None), checklog=1, want='c07'))
        # a check that cannot be evaluated on these credentials (a dotted path running into a string, a number,
        # null or a list of scalars; no role list at all) is a denial like any other: False, or the raise
        for leaf in (ev.generic('user.id', ev.ph('owner_id')), ev.generic('user.id.x', 'u1'), ev.role('r1')):
            for creds in ({'user': 'u1'}, {'user': None}, {'user': ['u1', 'u2']}, {'user': 7}, {'user': {'id': 5}}, {'user_id': 'u1'}):
                for shape in ('self', 'alias', 'or'):
                    rules = {'self': [('p:x', leaf)], 'alias': [('p:x', ev.rule('p:y')), ('p:y', leaf)], 'or': [('p:x', ev.Or(ev.F, leaf))]}[shape]
                    for mode in ({'doraise': 0}, {'doraise': 1}, {'doraise': 1, 'custom': 1, 'xargs': [1], 'xkw': {'k': 'v'}}):
                        for by in ('name', 'check', 'authorize'):
                            call = dict({'by': 'check' if by == 'check' else 'name', 'name': 'p:x', 'credskind': 'map', 'authorize': 1 if by == 'authorize' else 0}, **mode)
                            if by == 'check':
                                call['tree'] = dict(rules)['p:x']
                            cases.append(ec.enforce_case(rules, call, {'owner_id': 'u1'}, creds, dflt=('opt', None),
                                                         registered=[('p:x', [])] if by == 'authorize' else (), checklog=1, want='c07'))
        # one RequestContext object used for several calls, its attributes re-assigned in between: every
        # call is decided on what the context holds at the time of the call
        from oslo_context import context as _context
        for s_i in range(25 if q else 400):
            rules = [('p:x', ev.role('r1')), ('p:y', ev.Or(ev.role('r2'), ev.generic('project_id', ev.ph('project_id'))))]
            registered = [('p:x', rng.choice([[], ['project'], ['system'], ['domain', 'project']])), ('p:y', [])]
            enf = ev.make_enforcer({n: ev.rule_text(t) for n, t in rules}, ('opt', None),
                                   [(n, list(sc), ev.rule_text(dict(rules)[n])) for n, sc in registered], True)
            cobj = _context.RequestContext(user_id='u', roles=['r1'], project_id='p', request_id='req-00000000-0000-0000-0000-000000000001')
            for step in range(4):
                cobj.roles = rng.choice([['r1'], ['r2'], [], ['r1', 'r2'], ['R1']])
                r = rng.random()
                if r < 0.25:
                    cobj.system_scope, cobj.project_id, cobj.domain_id = 'all', None, None
                elif r < 0.5:
                    cobj.system_scope, cobj.project_id, cobj.domain_id = None, None, 'd'
                else:
                    cobj.system_scope, cobj.project_id, cobj.domain_id = None, rng.choice(['p', 'q']), None
                abstract = dict(cobj.to_policy_values())
                set_debug(rng.random() < 0.3)
                for doraise in (0, 1):
                    call = {'by': 'name', 'name': rng.choice(['p:x', 'p:y']), 'doraise': doraise, 'credskind': 'map',
                            'authorize': 1 if rng.random() < 0.3 else 0}
                    cases.append(ec.enforce_case(rules, call, {'project_id': 'p'}, abstract, dflt=('opt', None), registered=registered,
                                                 enforce_scope=True, checklog=1, want='c07', creds_obj=cobj, enforcer=enf,
                                                 extra={'_session': 'one RequestContext reused, step %d' % step}))
    finally:
        set_debug(False)
    bad = ec.judge(ctx, cases)
    for c in bad:
        if c['kind'] == 'pair':
            ctx.violation('raise-iff-falsy', 'do_raise off returned falsy but do_raise on did not raise (or the converse)',
                          {k: c.get(k) for k in ('_texts', '_dflt', '_registered', '_call', '_creds', '_target', 'a', 'b')})
        elif c['kind'] == 'same':
            ctx.violation('debug-logging-changes-outcome', 'outcome differs with debug logging on/off',
                          {k: c.get(k) for k in ('_texts', '_call', '_creds', '_target', 'a', 'b')})
        else:
            o = c['obs']
            if not o['target_unchanged']:
                key = 'target-modified'
            elif o['o'] == 'raise':
                key = 'raised:' + o['cls']
            else:
                key = 'returned:' + ('truthy' if o['v'] else 'falsy')
            d = ec.describe(c)
            d['debug_logging'] = c.get('_debug')
            ctx.violation(key, 'outcome of enforce/authorize differs from the specification (class, arguments, value or effect log)', d)
    ctx.cover.update({'calls': sum(1 for c in cases if c['kind'] == 'enforce'), 'pairs': n_pairs,
                      'raised_by_class': {k: sum(1 for c in cases if c.get('obs', {}).get('cls') == k) for k in
                                          ('PolicyNotAuthorized', 'Custom', 'InvalidScope', 'InvalidContextObject', 'PolicyNotRegistered')}})
    for c in [x for x in cases if x['kind'] == 'enforce'][:8]:
        ctx.sample(ec.sample(c))
