#!/venv/bin/python
"""setup_cmd: parse every TLA+ module with SANY and byte-compile the harness.
Nothing is fetched or installed."""
import os
import subprocess
import sys

ROOT = os.path.dirname(os.path.dirname(os.path.abspath(__file__)))
JAR = '/opt/veriftools/tla/tla2tools.jar:/opt/veriftools/tla/CommunityModules-deps.jar'


def main():
    rc = 0
    spec = os.path.join(ROOT, 'spec')
    for fn in sorted(os.listdir(spec)):
        if not fn.endswith('.tla'):
            continue
        p = subprocess.run(['java', '-cp', JAR, 'tla2sany.SANY', fn], cwd=spec, stdout=subprocess.PIPE, stderr=subprocess.STDOUT)
        out = p.stdout.decode('utf-8', 'replace')
        if p.returncode != 0 or 'rror' in out.replace('Semantic errors:', '') and ('*** Errors' in out or 'Fatal' in out or 'Parse Error' in out):
            print('SANY failed on %s\n%s' % (fn, out[-2000:]))
            rc = 1
        else:
            print('sany ok  %s' % fn)
    for d in ('harness', 'checks'):
        for fn in sorted(os.listdir(os.path.join(ROOT, d))):
            if fn.endswith('.py'):
                try:
                    with open(os.path.join(ROOT, d, fn)) as f:
                        compile(f.read(), fn, 'exec')
                except SyntaxError as ex:
                    print('%s: %s' % (fn, ex))
                    rc = 1
    print('setup %s' % ('ok' if rc == 0 else 'FAILED'))
    return rc


if __name__ == '__main__':
    sys.exit(main())
