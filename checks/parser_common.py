"""Recording of parser/evaluator/printer executions of the real code as cases
for spec/Conf_Parser.tla (shared by C01, C02, C15)."""
import itertools
import json

from harness import lang, tlc


def _mods():
    from oslo_policy import _parser, policy
    from oslo_config import cfg
    return _parser, policy, cfg


_ENF = {}


def enforcer_for(rules_dict, default_rule=None):
    """A real Enforcer holding exactly ``rules_dict`` (parsed by the code)."""
    _parser, policy, cfg = _mods()
    conf = cfg.ConfigOpts()
    conf([], project='verif', default_config_files=[], default_config_dirs=[])
    e = policy.Enforcer(conf, use_conf=False, default_rule=default_rule)
    e.set_rules(policy.Rules.from_dict(rules_dict, default_rule), use_conf=False)
    return e


ROLE_ENV = lang.LeafEnv(('role',))


def check_table(chk, leaves, lenv=ROLE_ENV, enforcer=None):
    """Decision table of a real check object."""
    if enforcer is None and (lenv.rules(leaves) or any(lenv.kind(i) in ('http', 'https') for i in leaves)):
        enforcer = enforcer_for(lenv.rules(leaves))         # rule: leaves need their definitions, remote checks the options
    rows = []
    for asg in lang.all_assignments(leaves):
        target, creds = lenv.env(asg, leaves)
        if chk(target, creds, enforcer):
            rows.append(list(asg))
    return rows


def _table(value, leaves, route, lenv=ROLE_ENV):
    """Decision table of rule value ``value`` through the chosen route."""
    _parser, policy, cfg = _mods()
    if route == 'enforce':
        rules = dict(lenv.rules(leaves))
        rules['p:x'] = value
        e = enforcer_for(rules)
        rows = []
        for asg in lang.all_assignments(leaves):
            target, creds = lenv.env(asg, leaves)
            if e.enforce('p:x', target, creds):
                rows.append(list(asg))
        return rows, e.rules['p:x']
    if route == 'checker':
        # the oslopolicy-checker tool as the evaluator: the rule in a policy file, the roles in an access file,
        # the verdict as printed ("passed: p:x" / "failed: p:x")
        import contextlib
        import io
        import os
        import shutil
        import tempfile
        from oslo_policy import shell
        d = tempfile.mkdtemp(prefix='verif_chk_')
        try:
            pf = os.path.join(d, 'policy.json')
            with open(pf, 'w') as f:
                json.dump({'p:x': value}, f)
            rows = []
            for asg in lang.all_assignments(leaves):
                target, creds = lenv.env(asg, leaves)
                af = os.path.join(d, 'access.json')
                with open(af, 'w') as f:
                    json.dump({'token': {'roles': [{'name': r, 'id': r} for r in creds['roles']], 'user': {'id': 'u', 'domain': {'id': 'd'}},
                                         'project': {'id': 'p', 'domain': {'id': 'd'}}}}, f)
                out = io.StringIO()
                with contextlib.redirect_stdout(out):
                    shell.tool(pf, af, 'p:x', False, None)
                verdicts = [ln.strip() for ln in out.getvalue().splitlines() if ln.strip()]
                if verdicts == ['passed: p:x']:
                    rows.append(list(asg))
                elif verdicts != ['failed: p:x']:
                    raise RuntimeError('checker printed %r' % (verdicts,))
            return rows, _parser.parse_rule(value)
        finally:
            shutil.rmtree(d, ignore_errors=True)
    if route == 'load':
        rules = policy.Rules.load(json.dumps({'p:x': value}))
        chk = rules['p:x']
    else:
        chk = _parser.parse_rule(value)
    return check_table(chk, leaves, lenv), chk


def record_text(toks, text, route='parse', want='c01', lenv=ROLE_ENV):
    """Run the real code on rule text ``text`` (a rendering of ``toks``)."""
    _parser, policy, cfg = _mods()
    leaves = lang.leaves_of(toks)
    case = {'kind': 'text', 'want': want, 'toks': toks, 'raised': 0, 'blank': 1 if (not toks and text != '') else 0,
            'empty': 1 if text == '' else 0,
            'table': [], 'pr': [], 'pr2': [], 'table2': [], '_text': text, '_route': route}
    try:
        table, chk = _table(text, leaves, route, lenv)
        case['table'] = table
        s1 = str(chk)
        chk2 = _parser.parse_rule(s1)
        s2 = str(chk2)
        case['_printed'] = s1
        case['pr'] = lang.alpha(s1, lenv.leaf_of)
        case['pr2'] = lang.alpha(s2, lenv.leaf_of) if s2 != s1 else case['pr']
        case['table2'] = check_table(chk2, leaves, lenv)
    except Exception as ex:      # any exception is an observation, judged by the spec
        case['raised'] = 1
        case['_exc'] = '%s: %s' % (type(ex).__name__, ex)
    return case


def record_list(outer, value, route='parse', want='c01', lenv=ROLE_ENV):
    """``outer``: abstract list of lists of check tokens; ``value`` the Python
    list handed to the code (inner one-element lists possibly as bare strings)."""
    _parser, policy, cfg = _mods()
    leaves = sorted({t - lang.LEAF0 for inner in outer for t in inner if t >= lang.LEAF0})
    case = {'kind': 'list', 'want': want, 'outer': outer, 'raised': 0, 'table': [], 'pr': [], 'pr2': [],
            'table2': [], '_value': value, '_route': route}
    try:
        table, chk = _table(value, leaves, route, lenv)
        case['table'] = table
        s1 = str(chk)
        chk2 = _parser.parse_rule(s1)
        s2 = str(chk2)
        case['_printed'] = s1
        case['pr'] = lang.alpha(s1, lenv.leaf_of)
        case['pr2'] = lang.alpha(s2, lenv.leaf_of) if s2 != s1 else case['pr']
        case['table2'] = check_table(chk2, leaves, lenv)
    except Exception as ex:
        case['raised'] = 1
        case['_exc'] = '%s: %s' % (type(ex).__name__, ex)
    return case


def strip(case):
    """The part of a case TLC sees (fields starting with '_' stay here)."""
    return {k: v for k, v in case.items() if not k.startswith('_')}


def judge(ctx, cases, chunk=40000, timeout=3000):
    """TLC judges every case; returns the rejected cases."""
    rejected, st = tlc.judge_cases('Conf_Parser', [strip(c) for c in cases], chunk=chunk, timeout=timeout)
    ctx.traces += len(cases)
    ctx.cover['conformance_tlc_states'] = ctx.cover.get('conformance_tlc_states', 0) + st['states']
    ctx.cover['conformance_tlc_wall_s'] = round(ctx.cover.get('conformance_tlc_wall_s', 0) + st['wall'], 1)
    rej = set(rejected)
    from harness import canary
    from checks import canaries
    canary.probe(ctx, 'Conf_Parser', [c for i, c in enumerate(cases, 1) if i not in rej], canaries.parser,
                 canary.by_cases('Conf_Parser', strip))
    return [cases[i - 1] for i in rejected]


def describe(case):
    d = {k: v for k, v in case.items() if k in ('kind', 'toks', 'outer', 'raised', 'table', 'pr', 'pr2', 'table2',
                                                 '_text', '_value', '_route', '_printed', '_exc', 'vclass', 'outcome', '_how')}
    if case['kind'] == 'text':
        d['reproduce'] = 'from oslo_policy import _parser; c=_parser.parse_rule(%r); print(str(c), [r for r in ROLESETS if c({}, {"roles": r}, None)])' % case.get('_text')
        d['canonical'] = lang.render(case['toks'])
    return d


def exhaustive_text_cases(maxlen, rng, variants=1, symbols=None, want='c01', route_p=0.1):
    syms = symbols or (lang.LP, lang.RP, lang.AND, lang.OR, lang.NOT, lang.LEAF0)
    for toks in lang.all_token_seqs(maxlen, syms):
        yield record_text(toks, lang.render(toks), 'parse', want)
        for _ in range(variants):
            route = 'enforce' if rng.random() < route_p else ('load' if rng.random() < route_p else 'parse')
            yield record_text(toks, lang.render(toks, rng, wide=True), route, want)


def list_shapes(max_outer, max_inner, atoms):
    inners = [[]]
    for n in range(1, max_inner + 1):
        inners += [list(c) for c in itertools.product(atoms, repeat=n)]
    for n in range(0, max_outer + 1):
        for outer in itertools.product(range(len(inners)), repeat=n):
            yield [inners[i] for i in outer]


def list_value(outer, rng, lenv=ROLE_ENV):
    """gamma for list rules: one-element inner lists may be bare strings."""
    val = []
    for inner in outer:
        texts = [lang.core_text(t, None, lenv.text) for t in inner]
        if len(texts) == 1 and rng.random() < 0.5:
            val.append(texts[0])
        else:
            val.append(texts)
    return val


def tuplify(val, rng):
    """the same list rule given by a Python caller with tuples (not expressible in JSON/YAML)"""
    out = [tuple(x) if isinstance(x, list) and rng.random() < 0.7 else x for x in val]
    return tuple(out) if rng.random() < 0.4 else out


ODD_CREDS = [({}, {}), ({'a': 'b'}, {'roles': []}), ({'x': 1}, {'roles': ['r1', 'admin'], 'x': 'y', 'is_admin': True}),
             ({}, {'roles': ['R1', 'r2', 'r3', 'r4', 'r5', 'r6', 'r7', 'r8', 'r9'], 'user_id': 'u', 'project_id': 'p'})]


def extra_allow(text_or_value):
    """Does the rule allow under any of a spread of odd credentials/targets?
    (only meaningful for inputs that are not sentences: they must deny
    everything).  Exceptions propagate."""
    _parser, policy, cfg = _mods()
    chk = _parser.parse_rule(text_or_value)
    e = enforcer_for({'p:x': text_or_value})
    hit = 0
    for target, creds in ODD_CREDS:
        if chk(dict(target), dict(creds), None):
            hit = 1
        if e.enforce('p:x', dict(target), dict(creds)):
            hit = 1
    return hit
