"""C11 - deprecated-policy merging follows the documented override table.

MC  : spec/MC_Loader.tla with SpecAll, for every deprecation variant
      (renamed / same name x same / different check strings, one deprecated
      name split into two new policies) and both values of
      enforce_new_defaults: _handle_deprecated_rule transcribed branch for
      branch (HandleDeprecated inside LoadRules) equals the table of the
      statement (C11Body inside FreshPolicy) on every file configuration.
S2C : every row of the table (variant x flag x new-name override absent /
      in the main file / in a directory x old-name override absent /
      arbitrary / alias, in the main file or a directory) on real Enforcers
      with real DeprecatedRule objects (textual variants of the check
      strings, arbitrary reason/since texts), decisions for every name and
      single role validated by spec/Trace_Loader.tla.
"""
from harness import tlc
from checks import loader_common as lc
from checks.c09 import MC_ALL


def run(ctx):
    q = ctx.quick
    pairs = [('renamed', False), ('split', True)] if q else [(v, e) for v in lc.VARIANTS for e in (False, True)]
    for variant, en in pairs:
        res = tlc.run('MC_Loader', MC_ALL % ('TRUE' if en else 'FALSE', variant), coverage=not q, timeout=3400)
        ctx.add_mc('MC_Loader/SpecAll(%s,enforce_new=%s)' % (variant, en), res)
    rng = ctx.rng
    new_ovs = [None, ('main', 'new'), ('d1/a', 'new'), ('d2/a', 'both')]
    old_ovs = [None, ('main', 'old'), ('d1/b', 'old'), ('main', 'alias'), ('d1/b', 'alias'), ('d2/a', 'alias'), ('main', 'oldsame'), ('d1/b', 'oldsame'),
               ('main', 'rolenew'), ('d1/b', 'rolenew'), ('main', 'oldasnew'), ('d1/b', 'oldasnew')]
    n = 0
    rows = 0
    for variant in lc.VARIANTS:
        for en in (False, True):
            hs = []
            for nov in new_ovs:
                for oov in old_ovs:
                    rows += 1
                    if nov and oov and nov[0] == oov[0]:
                        continue          # one abstract file holds one kind of content
                    ws = [('write',) + x for x in (nov, oov) if x]
                    rng.shuffle(ws)
                    # an unrelated file and a second load must not matter
                    extra = [('write', 'd1/a', 'old')] if (rng.random() < 0.2 and not any(w[1] == 'd1/a' for w in ws) and not oov) else []
                    hs.append(ws + [('load', False)] + ([('load', rng.random() < 0.5)] if rng.random() < 0.5 else []) + extra * 0)
            # the old name overridden in two places (the later file governs), alias in one and a real
            # override in the other; the option changed after the first load, then a forced reload
            hs += [[('write', 'main', 'old'), ('write', 'd1/b', 'old'), ('load', False)],
                   [('write', 'd1/b', 'old'), ('write', 'main', 'old'), ('load', False)],
                   [('write', 'main', 'alias'), ('write', 'd1/b', 'old'), ('load', False)],
                   [('write', 'main', 'old'), ('write', 'd2/a', 'alias'), ('load', False)],
                   [('write', 'd1/a', 'old'), ('write', 'd2/a', 'old'), ('load', False), ('delete', 'd2/a'), ('load', False)],
                   [('load', False), ('setopt', not en), ('load', True), ('write', 'main', 'old'), ('load', False)],
                   # an override that was there at the first load and is gone at the second ("nothing else ever
                   # influences a decision": not what a file used to say), with and without a main file
                   [('write', 'd1/b', 'old'), ('load', False), ('delete', 'd1/b'), ('load', False)],
                   [('write', 'd1/a', 'new'), ('load', False), ('empty', 'd1/a'), ('load', False)],
                   [('write', 'd2/a', 'old'), ('load', False), ('write', 'd2/a', 'new'), ('load', False), ('empty', 'd2/a'), ('load', False)],
                   [('write', 'main', 'old'), ('load', False), ('empty', 'main'), ('load', False)],
                   [('write', 'main', 'fixed'), ('write', 'd1/b', 'old'), ('load', False), ('delete', 'd1/b'), ('load', False)],
                   [('write', 'd1/a', 'alias'), ('load', False), ('setopt', not en), ('load', True), ('setopt', en), ('load', True)]]
            ns = len(lc.STYLES)
            off = rng.randrange(ns)
            for rnd in ([0] if q else range(ns)):
                traces = []
                styles_used = []
                for hi, h in enumerate(hs):
                    # textual style of the two default check strings: rotated over the rows; rows whose outcome
                    # depends on a particular spelling get that spelling in the quick tier too (an old-name
                    # override that reads like the deprecated default -> the plain style; no override at all
                    # -> also the style whose check strings differ in letter case only)
                    style = (hi + off + rnd) % ns
                    if rnd == 0 and any(op[0] == 'write' and op[2] in ('oldsame', 'oldasnew') for op in h):
                        style = 0
                    elif rnd == 0 and not any(op[0] == 'write' for op in h) and hi % 2 == 0:
                        style = ns - 1
                    styles_used.append(style)
                    dfl = lc.defaults_for(variant, style, reason=rng.choice(['r', 'because: "x"', '']) or 'r',
                                          since=rng.choice(['s', '2025.1', 'Z']))
                    traces.append(lc.run_history(rng, variant, en, h, defaults=dfl))
                n += len(traces)
                for idx, why, step in lc.judge_traces(ctx, variant, en, traces):
                    tr = traces[idx]
                    wr = ['%s:%s' % (e['f'], e['kind']) for e in tr if e['op'] == 'write']
                    ctx.violation('override-table:%s:enforce_new=%s:%s' % (variant, en, '+'.join(sorted(wr)) or 'no-override'),
                                  'decision for a policy with a deprecated predecessor differs from the override table: ' + why,
                                  {'variant': variant, 'enforce_new_defaults': en, 'check_string_style': lc.STYLES[styles_used[idx]], 'why': why, 'trace': tr})
                if len(ctx.samples) < 5:
                    ctx.sample({'variant': variant, 'enforce_new_defaults': en, 'style': lc.STYLES[styles_used[-1]], 'trace': traces[-1]})
    # the same table when the configuration reaches the enforcer another way: ONE opts.set_defaults call that
    # names the policy file and the options, or nothing configured at all (the main file is a policy.json in
    # the configuration directory, found by the documented fallback)
    n_routes = 0
    for route in ('set_defaults', 'discover'):
        for variant in ('renamed', 'same', 'split', 'plain'):
            for en in (False, True):
                plans = [([('write', 'main', 'old')], [('load', False)]), ([('write', 'main', 'new')], [('write', 'd1/b', 'old'), ('load', False)]),
                         ([('write', 'main', 'alias')], [('load', False), ('load', True)]), ([('write', 'main', 'both')], [('load', False)])]
                if route == 'set_defaults':
                    plans.append(([], [('load', False)]))
                    plans.append(([], [('write', 'd1/a', 'old'), ('load', False)]))
                traces = [lc.run_history(rng, variant, en, h, route=route, pre=pre) for pre, h in plans]
                n_routes += len(traces)
                for idx, why, step in lc.judge_traces(ctx, variant, en, traces):
                    ctx.violation('override-table:%s:enforce_new=%s:configured-by-%s' % (variant, en, route),
                                  'decision for a policy with a deprecated predecessor differs from the override table: ' + why,
                                  {'variant': variant, 'enforce_new_defaults': en, 'configuration_route': route, 'why': why, 'trace': traces[idx]})
    ctx.cover['rows_by_other_configuration_routes'] = n_routes
    ctx.exhaustive = True
    ctx.cover.update({'table_rows': rows, 'rows_x_styles_run': n, 'variants': lc.VARIANTS})
    ctx.assumptions += ['an old-name override textually equal to the deprecated default is left unconstrained by the statement and is not generated',
                        'check strings are OR-sets of role checks in textual variants; general expressions are the subject of C01']
