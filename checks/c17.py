"""C17 - a generated sample policy file overrides nothing and states every
default.

MC  : spec/MC_Sample.tla - the generator model (per-default block, the
      three-state description formatter, deprecation blocks) over every
      kind of default x description / reason shape x operations x scope x
      exclude-deprecated: the emitted document has no live line, states
      every default exactly once, every rule line is followed by a blank
      line, and the document grammar used below accepts it.
C2S : real _generate_sample output for enumerated structures and for
      hostile descriptions / reasons (printable Unicode, newlines, tabs, #,
      quotes, colons, leading blanks, words longer than the wrap width,
      text that looks like a rule line) is classified line by line by the
      harness, loaded by an independent YAML parser as written and with the
      rule lines uncommented, and judged by spec/Conf_Sample.tla; the JSON
      sample must hold the same mapping.
"""
import io
import json
import os
import re
import shutil
import tempfile
from unittest import mock

import yaml

from harness import ev, tlc

MC_CFG = """SPECIFICATION Spec
CONSTANT WithPairs = %s
INVARIANT InvNoLiveLine
INVARIANT InvEveryDefaultOnce
INVARIANT InvRuleThenBlank
INVARIANT InvAccepts
CHECK_DEADLOCK FALSE
"""

# a commented-out rule line: two double-quoted scalars (escape sequences allowed inside)
RULE_RE = re.compile(r'^#"((?:[^"\\]|\\.)*)": "((?:[^"\\]|\\.)*)"$')


ALIAS_RE = re.compile(r'^# "((?:[^"\\]|\\.)*)": "rule:(?:[^"\\]|\\.)*"$')


def unescape(body):
    """the text a double-quoted scalar stands for (the escapes JSON and YAML share), None if malformed"""
    try:
        v = json.loads('"%s"' % body.replace('\t', '\\t'))
        return v if isinstance(v, str) else None
    except ValueError:
        return None

WORDS = ['policy', 'the', 'a', 'is', 'allowed', '#', '##', '"quoted"', "'single'", 'key: value', 'colon:', ':', '- item', '-', '?', '|', '>',
         '"x": "@"', '#"x": "@"', '%(user_id)s', '100%', '%s', '{}', '{a: b}', '[1, 2]', '&anchor', '*alias', '!tag', '@', '`', 'é', 'Ж', '中文', '🙂',
         'cr\rhere', 'vt\x0bhere', 'ff\x0chere', '"evil": "@"\r"evil2": "@"', 'x' * 75, 'y' * 140, 'http://example.org/' + 'p/' * 40, 'tab\there', 'trailing   ', '\\', '\\n', '---', '...', '~', 'null', 'true']


def hostile_text(rng):
    n = rng.randint(0, 6)
    lines = []
    for _ in range(n):
        r = rng.random()
        if r < 0.15:
            lines.append('')
        elif r < 0.3:
            lines.append(rng.choice(['  ', '    ', '\t', ' ']) + ' '.join(rng.choice(WORDS) for _ in range(rng.randint(1, 5))))
        elif r < 0.4:
            lines.append(rng.choice(['"evil": "@"', '#"evil": "@"', '"n0": "role:x"', 'evil: "@"', '"a": "b"  # c', '  "indented": "@"']))
        else:
            lines.append(' '.join(rng.choice(WORDS) for _ in range(rng.randint(1, 14))))
    sep = rng.choice(['\n', '\n', '\n', '\r\n'])
    text = sep.join(lines)
    if rng.random() < 0.2:
        text = rng.choice(['\n', ' ', '\n\n']) + text + rng.choice(['\n', '  ', ''])
    return ''.join(ch for ch in text if ch.isprintable() or ch in '\n\t\r\x0b\x0c')


NAME_CH = 'abcdefgXYZ019_:-.*/'
CHECKS = ['role:admin', 'rule:admin_or_owner', "'lit':%(x.y)s", 'project_id:%(project_id)s or role:reader', '(role:a and not role:b) or rule:c',
          '@', '!', '', 'True:%(flag)s', 'role:admin and system_scope:all', 'user_id:%(target.user.id)s', 'http://x.example/%(k)s',
          'domain_name:%(name)s', 'role:' + 'r' * 90, ' or '.join('role:r%d' % i for i in range(14)),
          # blanks are part of the check string: leading / trailing / doubled / nothing but blanks
          'role:admin or role:member ', ' role:x', ' ', '   ', 'role:a  and  role:b', '\trole:t', 'role:u\t', 'role:v\x0band\x0crole:w']


def make_defaults(rng, n):
    from oslo_policy import policy
    out, meta = [], []
    for i in range(n):
        name = 'svc%d:' % i + ''.join(rng.choice(NAME_CH) for _ in range(rng.randint(1, 12)))
        if rng.random() < 0.2:
            name += rng.choice(['\U0001F512:open', 'é', ' x', '#h', 'Ж', ': y', "'s", '\U000E0041', '%(k)s', '{z}', '\u2028', '\x85'][:10])
        check = rng.choice(CHECKS)
        kind = rng.choice(['plain', 'plain', 'removal', 'renamed', 'changed'])
        desc = hostile_text(rng) if rng.random() < 0.85 else None
        reason = rng.choice([hostile_text(rng) or 'because', hostile_text(rng), '', None, '  ', 'because'])
        since = rng.choice(['N', '2025.1', 'Wallaby (13.0.0)', '1.0 # x', 'v: 2'])
        scope = rng.choice([None, None, ['project'], ['system', 'project'],
                            # scope types are free-form unique strings: many / long ones make a long comment line
                            ['system', 'domain', 'project', 'organization', 'department', 'region', 'availability-zone', 'tenant-group'],
                            ['scope-' + 'x' * 70], ['a: b', '#c', '"q"'.replace('"', '')]])
        kw = {'scope_types': scope}
        if kind == 'removal':
            kw.update(deprecated_for_removal=True, deprecated_reason=reason if reason is not None else '', deprecated_since=since)
        elif kind == 'renamed':
            kw['deprecated_rule'] = policy.DeprecatedRule('old%d:%s' % (i, name[5:]), rng.choice(CHECKS), deprecated_reason=reason, deprecated_since=since)
        elif kind == 'changed':
            kw['deprecated_rule'] = policy.DeprecatedRule(''.join(list(name)), rng.choice(CHECKS), deprecated_reason=reason, deprecated_since=since)    # (an equal string, not the same object)
        documented = rng.random() < 0.6 and desc and desc.strip()
        if documented:
            ops = [{'path': rng.choice(['/v1/x', '/v2/{id}/y#frag', '/a: b', '/"q"'.replace('"', '')]), 'method': rng.choice(['GET', 'POST', 'a: b'])}
                   for _ in range(rng.randint(1, 3))]
            d = policy.DocumentedRuleDefault(name, check, desc, ops, **kw)
        else:
            d = policy.RuleDefault(name, check, description=desc, **kw)
        out.append(d)
        meta.append({'name': name, 'check': check, 'kind': kind})
    return out, meta


def classify(text):
    lines = []
    for ln in text.split('\n'):
        if ln == '':
            lines.append({'c': 'blank', 'name': [], 'check': []})
        elif ln == '#':
            lines.append({'c': 'hash', 'name': [], 'check': []})
        elif ln.startswith('#"'):
            m = RULE_RE.match(ln)
            if m and unescape(m.group(1)) is not None and unescape(m.group(2)) is not None:
                lines.append({'c': 'rule', 'name': ev.cps(unescape(m.group(1))), 'check': ev.cps(unescape(m.group(2)))})
            else:
                lines.append({'c': 'rulelike', 'name': [], 'check': [], '_raw': ln})
        elif ALIAS_RE.match(ln):
            lines.append({'c': 'comment', 'name': [], 'check': [], '_alias': ALIAS_RE.match(ln).group(1)})
        elif ln.startswith('#'):
            lines.append({'c': 'comment', 'name': [], 'check': []})
        else:
            lines.append({'c': 'live', 'name': [], 'check': [], '_raw': ln})
    # the file ends with a newline: the split leaves one empty tail element
    if lines and lines[-1]['c'] == 'blank':
        lines.pop()
    return lines


ARGS_N = [0]


def one_case(rng, sections, excl):
    """sections: dict section -> (defaults, meta)"""
    from oslo_policy import generator, policy
    d = tempfile.mkdtemp(prefix='verif_sample_')
    c = {'crashed': 0, 'lines': [], 'defaults': [], 'yaml_whole_empty': 0, 'yaml_uncommented_ok': 0, 'uncommented': [], 'rules_load_ok': 0,
         'json_ok': 0, 'json_pairs': [], 'aliases': []}
    try:
        for sec in sorted(sections):
            for m in sections[sec][1]:
                c['defaults'].append({'name': ev.cps(m['name']), 'check': ev.cps(m['check'])})
        pol = {sec: v[0] for sec, v in sections.items()}
        out = os.path.join(d, 'sample.yaml')
        outj = os.path.join(d, 'sample.json')
        if rng.random() < 0.4:
            # the output files exist already (an earlier sample, an edited policy file): they are replaced
            with open(out, 'w') as f_:
                f_.write('"stale:rule": "!"\n"svc:thing": "@"\n')
            with open(outj, 'w') as f_:
                f_.write('{"stale:rule": "!"}\n')
            c['_preexisting_output'] = True
        with mock.patch('oslo_policy.generator.get_policies_dict', return_value=pol):
            if rng.random() < 0.5:
                # through the console entry point (oslopolicy-sample-generator), options as command-line arguments
                from oslo_config import cfg as _cfg
                for fmt, path in (('yaml', out), ('json', outj)):
                    args = [a for ns in pol for a in ('--namespace', ns)] + ['--output-file', path, '--format', fmt]
                    ARGS_N[0] += 1
                    if fmt == 'yaml' and ARGS_N[0] % 4 == 1:
                        args = args[:-2]        # YAML is the documented default format: no --format argument at all
                        c['_no_format_argument'] = True
                    if excl:
                        args.append('--exclude-deprecated')
                    generator.generate_sample(args=args, conf=_cfg.ConfigOpts())
                c['_via'] = 'generate_sample(args)'
            else:
                generator._generate_sample(list(pol), out, 'yaml', exclude_deprecated=excl)
                generator._generate_sample(list(pol), outj, 'json', exclude_deprecated=excl)
        text = open(out, encoding='utf-8').read()
        c['_text'] = text
        c['lines'] = classify(text)
        c['aliases'] = [ev.cps(l['_alias']) for l in c['lines'] if l.get('_alias') is not None]
        try:
            whole = yaml.safe_load(text)
            c['yaml_whole_empty'] = 1 if not whole else 0
        except yaml.YAMLError as ex:
            c['_yaml_whole_error'] = str(ex)[:200]
        unc = '\n'.join(ln[1:] if RULE_RE.match(ln) else ln for ln in text.split('\n'))
        try:
            data = yaml.safe_load(unc)
            if isinstance(data, dict) and all(isinstance(k, str) and isinstance(v, str) for k, v in data.items()):
                c['yaml_uncommented_ok'] = 1
                c['uncommented'] = [[ev.cps(k), ev.cps(v)] for k, v in data.items()]
            elif data is None and not c['defaults']:
                c['yaml_uncommented_ok'] = 1
        except yaml.YAMLError as ex:
            c['_yaml_unc_error'] = str(ex)[:200]
        try:
            rules = policy.Rules.load(unc)
            c['rules_load_ok'] = 1 if set(rules) == {ev.uncps(x['name']) for x in c['defaults']} else 0
        except Exception as ex:
            c['_rules_load_error'] = str(ex)[:200]
        try:
            jd = json.loads(open(outj, encoding='utf-8').read())
            if isinstance(jd, dict):
                c['json_ok'] = 1
                c['json_pairs'] = [[ev.cps(k), ev.cps(v)] for k, v in jd.items()]
        except Exception as ex:
            c['_json_error'] = str(ex)[:200]
    except Exception as ex:
        c['crashed'] = 1
        c['_exc'] = '%s: %s' % (type(ex).__name__, ex)
    finally:
        shutil.rmtree(d, ignore_errors=True)
    return c


def strip(x):
    if isinstance(x, dict):
        return {k: strip(v) for k, v in x.items() if not k.startswith('_')}
    if isinstance(x, list):
        return [strip(v) for v in x]
    return x


def run(ctx):
    q = ctx.quick
    res = tlc.run('MC_Sample', MC_CFG % ('FALSE' if q else 'TRUE'), coverage=not q, timeout=3400)
    ctx.add_mc('MC_Sample(pairs=%s)' % (not q), res)
    rng = ctx.rng
    cases = []
    for i in range(250 if q else 6000):
        nsec = rng.choice([1, 1, 2])
        sections = {}
        for s in range(nsec):
            sections[rng.choice(['b_sec', 'a_sec', 'Z', 'rules'][s:] or ['x'])] = make_defaults(rng, rng.randint(0 if nsec > 1 else 1, 3))
        cases.append(one_case(rng, sections, rng.random() < 0.3))
    # the bare corners, always: each kind of default without description / with an empty or missing reason,
    # without operations and scope, alone and next to a plain default, with and without exclude-deprecated
    from oslo_policy import policy as _policy
    for kind in ('plain', 'removal', 'renamed', 'changed'):
        for reason in ('', None, 'because'):
            for desc in (None, '', 'A description.'):
                for excl in (False, True):
                    kw = {}
                    if kind == 'removal':
                        kw.update(deprecated_for_removal=True, deprecated_reason=reason or '', deprecated_since='N')
                    elif kind == 'renamed':
                        kw['deprecated_rule'] = _policy.DeprecatedRule('old:thing', 'role:old', deprecated_reason=reason, deprecated_since='N')
                    elif kind == 'changed':
                        kw['deprecated_rule'] = _policy.DeprecatedRule(''.join(['svc', ':', 'thing']), 'role:old', deprecated_reason=reason, deprecated_since='N')
                    elif reason != '':
                        continue
                    d0 = _policy.RuleDefault('svc:thing', 'role:admin', description=desc, **kw)
                    d1 = _policy.RuleDefault('svc:other', '@')
                    meta = [{'name': 'svc:thing', 'check': 'role:admin', 'kind': kind}, {'name': 'svc:other', 'check': '@', 'kind': 'plain'}]
                    cases.append(one_case(rng, {'sec': ([d0, d1] if (len(cases) % 2) else [d1, d0], meta if (len(cases) % 2) else meta[::-1])}, excl))
    rejected, st = tlc.judge_cases('Conf_Sample', [strip(c) for c in cases], chunk=5000, timeout=3000)
    ctx.traces += len(cases)
    from harness import canary
    from checks import canaries
    canary.probe(ctx, 'Conf_Sample', [c for i, c in enumerate(cases, 1) if i not in set(rejected)], canaries.sample,
                 canary.by_cases('Conf_Sample', strip))
    for i in rejected:
        c = cases[i - 1]
        classes = {l['c'] for l in c['lines']}
        if c['crashed']:
            key = 'generator-crashed'
        elif 'live' in classes or 'rulelike' in classes or not c['yaml_whole_empty']:
            key = 'sample-overrides-or-invalid'
        elif not c['json_ok'] or len(c['json_pairs']) != len(c['defaults']):
            key = 'json-sample'
        else:
            key = 'defaults-not-stated-exactly'
        ctx.violation(key, 'generated sample is not "all rule lines commented out, stating every default exactly once"',
                      {'sample_text': (c.get('_text') or '')[:3000], 'bad_lines': [l.get('_raw') for l in c['lines'] if l['c'] in ('live', 'rulelike')][:10],
                       'defaults': [(ev.uncps(x['name']), ev.uncps(x['check'])) for x in c['defaults']],
                       'errors': {k: v for k, v in c.items() if k.startswith('_') and k != '_text'}})
    ctx.cover.update({'samples_generated': len(cases), 'lines_classified': sum(len(c['lines']) for c in cases),
                      'rule_lines': sum(1 for c in cases for l in c['lines'] if l['c'] == 'rule')})
    for c in cases[:3]:
        ctx.sample({'sample_text': (c.get('_text') or '')[:600]})
    ctx.assumptions += ['names, check strings, operation paths/methods and deprecated_since are printable and free of double quotes, backslashes and line breaks (the statement\'s premise); descriptions and reasons are arbitrary printable text with newlines and tabs',
                        'a line is a commented rule iff it matches  #"<name>": "<check>"  exactly; "valid YAML" is PyYAML safe_load']
