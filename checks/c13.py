"""C13 - validation flags every undefined or cyclic rule reference, and only
those.

MC  : spec/MC_Validate.tla - every rule graph over 3 (thorough: 4) names with
      bodies from a pool (references at top level, under not, under and/or,
      in a nested group; self-loops, long cycles, diamonds, undefined
      targets): the code's two walkers (transcribed, including the
      per-branch copies of the visited set) report exactly when an
      independent graph analysis finds an undefined or cycle-reaching
      reference; clean graphs evaluate within a reference depth of |names|.
      spec/EvalSS.tla - the evaluator as a small-step control/continuation
      machine (one action per step of _check, And, Or, Not, RuleCheck): on
      every clean rule set evaluation TERMINATES (temporal property checked
      by TLC under weak fairness, no state constraint), never follows the
      same name twice at once, and returns the closed-form denotation.
S2C : the same graphs (sampled in quick) and random graphs on 6 names on
      real Enforcers: check_rules(), check_rules(raise_on_violation=True),
      and generator._validate_policy (with missing file / unknown name /
      unparseable rule arranged by the harness); for graphs reported clean
      every rule is evaluated under a recursion watchdog.  Judged by
      spec/Conf_Validate.tla against the independent analysis.
"""
import itertools
import os
import shutil
import sys
import tempfile
from unittest import mock

from harness import ev, tlc
from checks import eval_common as ec

MC_CFG = """SPECIFICATION Spec
CONSTANTS NNames = %d
 Pool = "%s"
INVARIANT InvReportExact
INVARIANT InvCleanTerminates
CHECK_DEADLOCK FALSE
"""

SS_CFG = """SPECIFICATION Spec
CONSTANTS NNames = %d
 Pool = "%s"
INVARIANT DepthBounded
INVARIANT NoRepeat
INVARIANT ResultIsDenotation
PROPERTY Terminates
CHECK_DEADLOCK FALSE
"""

L = ev.role('r')


def pool(names, full=True):
    tg = names + ['zz']
    b = [L] + [ev.rule(x) for x in tg] + [ev.Not(ev.rule(x)) for x in tg]
    b += [ev.And(ev.rule(x), ev.rule(y)) for x in names for y in names]
    b += [ev.Or(L, ev.rule(x)) for x in tg]
    if full:
        b += [ev.And(L, ev.Not(ev.rule(x))) for x in tg]
        b += [ev.Or(ev.And(ev.rule(x), L), ev.Not(ev.rule(y))) for x in names for y in names]
    return b


HOSTILE = ['compute/admin', 'tier+1', 'net:*', 'owner%project', 'a,b', 'x=y', 'é/ü', 'svc.get-all', 'q?', 'w|z', '~t', 'k&l']


def _rename_tree(t, m):
    if t['k'] == 'rule':
        return dict(t, name=m.get(t['name'], t['name']))
    if t['k'] == 'not':
        return dict(t, a=_rename_tree(t['a'], m))
    if t['k'] in ('and', 'or'):
        return dict(t, **{'as': [_rename_tree(x, m) for x in t['as']]})
    return t


def hostile_names(rules, rng):
    """the same graph over names that hold punctuation (a rule name is any string without blanks or
    parentheses); undefined references are spelled as a defined name plus a suffix, defined names may
    be prefixes of one another"""
    defined = [n for n, _ in rules]
    refs = set()

    def walk(t):
        if t['k'] == 'rule':
            refs.add(t['name'])
        elif t['k'] == 'not':
            walk(t['a'])
        elif t['k'] in ('and', 'or'):
            for x in t['as']:
                walk(x)
    for _, t in rules:
        walk(t)
    pool_ = rng.sample(HOSTILE, len(HOSTILE))
    m = {}
    for i, n in enumerate(defined):
        m[n] = pool_[i % len(pool_)] if i else rng.choice(['compute', 'tier', 'net:', 'owner'])
    if len(defined) > 1 and rng.random() < 0.5:
        m[defined[1]] = m[defined[0]] + rng.choice(['/admin', '+1', '*', '%project'])      # a defined name extends another
    for n in sorted(refs - set(defined)):
        m[n] = m[rng.choice(defined)] + rng.choice(['/legacy', '+', '!x', '%', '#'])
    if len(set(m.values())) != len(m):
        return rules                      # the drawn spellings collide: keep the plain names
    return [(m[n], _rename_tree(t, m)) for n, t in rules]


def late_enforcer(rules, rng):
    """a file-backed enforcer that has already loaded its policy file when part of the rule set
    arrives: the first rules come from the file, the rest are defaults registered afterwards"""
    from oslo_config import cfg
    from oslo_policy import policy
    import yaml
    d = tempfile.mkdtemp(prefix='verif_late_')
    k = rng.randint(0, len(rules) - 1) if rules else 0
    texts = {n: ev.rule_text(t, rng) for n, t in rules}
    path = os.path.join(d, 'policy.yaml')
    with open(path, 'w') as f:
        f.write(yaml.safe_dump({n: texts[n] for n, _ in rules[:k]}, default_flow_style=False) if k else '{}')
    conf = cfg.ConfigOpts()
    conf([], project='verif', default_config_files=[], default_config_dirs=[])
    e = policy.Enforcer(conf, policy_file=path)
    conf.set_override('policy_dirs', [], group='oslo_policy')
    conf.set_override('policy_default_rule', None, group='oslo_policy')
    e.default_rule = None
    e.load_rules()
    e.check_rules()
    for n, _ in rules[k:]:
        e.register_default(policy.RuleDefault(n, texts[n]))
    e.load_rules()
    return e, texts, d


def check_case(rules, rng, late=False, decorate=None):
    from oslo_policy import policy
    texts = {n: ev.rule_text(t, rng) for n, t in rules}
    if decorate:
        texts = {n: decorate(t) for n, t in texts.items()}
    c = {'kind': 'check', 'rules': [[n, ev.strip(t)] for n, t in rules], 'ok': 0, 'raised': 0, 'terminated': 1, 'crashed': 0,
         '_texts': texts}
    try:
        # the default-rule setting is a free variable: unset, the library default name
        # 'default', or one of the names of the graph (validation must not let an undefined
        # reference pass because a fallback rule exists)
        dflt = rng.choice([('opt', None), None, ('name', sorted(texts)[0]), ('opt', sorted(texts)[-1])])
        tmpd = None
        if late:
            e, texts, tmpd = late_enforcer(rules, rng)
            c['_texts'] = texts
            c['_late'] = True
        else:
            # names that are referenced but not defined may be *registered* as defaults on this enforcer, which
            # never loads (use_conf off): a registered default that is not part of the rule set defines nothing
            reg = []
            if rng.random() < 0.35:
                refs = set()

                def walk(t):
                    if t['k'] == 'rule':
                        refs.add(t['name'])
                    for kk in ('a',):
                        if kk in t:
                            walk(t[kk])
                    for kid in t.get('as', []):
                        walk(kid)
                for _, t in rules:
                    walk(t)
                reg = [(n, [], rng.choice(['role:r', '@', '!'])) for n in sorted(refs - set(texts))]
                c['_registered_not_merged'] = [r[0] for r in reg]
            e = ev.make_enforcer(texts, dflt, registered=reg, via=rng.choice(['rules_obj', 'dict', 'ctor']))
        c['ok'] = 1 if e.check_rules() else 0
        try:
            e.check_rules(raise_on_violation=True)
        except policy.InvalidDefinitionError:
            c['raised'] = 1
        if c['ok']:
            old = sys.getrecursionlimit()
            sys.setrecursionlimit(400)
            try:
                for n in texts:
                    for roles in ([], ['r']):
                        e.enforce(n, {}, {'roles': roles})
            except RecursionError:
                c['terminated'] = 0
            except TypeError as ex:       # inspect turns a RecursionError into TypeError('unsupported callable')
                if 'unsupported callable' in str(ex):
                    c['terminated'] = 0
                else:
                    raise
            finally:
                sys.setrecursionlimit(old)
    except Exception as ex:
        c['crashed'] = 1
        c['_exc'] = '%s: %s' % (type(ex).__name__, ex)
    finally:
        if locals().get('tmpd'):
            shutil.rmtree(tmpd, ignore_errors=True)
    return c


def validator_case(rules, rng, missing=False, unknown=False, unparseable=False, only_default=(), decorate=None):
    """run generator._validate_policy on a policy file holding ``rules``"""
    from oslo_config import cfg
    from oslo_policy import generator, opts, policy
    d = tempfile.mkdtemp(prefix='verif_val_')
    texts = {n: ev.rule_text(t) for n, t in rules}
    if decorate:
        texts = {n: decorate(t) for n, t in texts.items()}
    names = list(texts)
    if unparseable and names:
        texts[names[0]] = rng.choice(['(bar))', 'role:r and', 'not', 'role:r role:r', "'quoted'"])
    c = {'kind': 'validator', 'rules': [[n, ev.strip(t)] for n, t in list(rules) + list(only_default)], 'missing': 1 if missing else 0, 'unknown': 1 if unknown else 0,
         'unparseable': 1 if (unparseable and names) else 0, 'rc': -1, 'crashed': 0, '_texts': texts}
    if unparseable and names:
        # the replaced rule no longer has its references
        c['rules'] = [[n, (ev.strip(t) if n != names[0] else {'k': 'F'})] for n, t in list(rules) + list(only_default)]
    conf = cfg.CONF
    try:
        path = os.path.join(d, 'policy.yaml')
        if not missing:
            with open(path, 'w') as f:
                import yaml
                f.write(yaml.safe_dump(texts, default_flow_style=False) if texts else '{}')
        opts._register(conf)
        conf([], project='verif', default_config_files=[], default_config_dirs=[])
        conf.set_override('policy_file', path, group='oslo_policy')
        conf.set_override('policy_dirs', [], group='oslo_policy')
        e = policy.Enforcer(conf)
        reg = names[1:] if (unknown and names) else names
        if unknown and not names:
            c['unknown'] = 0
        for n in reg:
            e.register_default(policy.RuleDefault(n, texts[n]))
        for n, t in only_default:
            e.register_default(policy.RuleDefault(n, ev.rule_text(t)))
        with mock.patch('oslo_policy.generator._get_enforcer', return_value=e), \
                mock.patch('builtins.print'):
            if rng.random() < 0.5:
                # through the console entry point (oslopolicy-validator): the exit status of the process
                c['_via'] = 'validate_policy(args)'
                try:
                    nc = cfg.ConfigOpts()               # the entry point parses its own command line on the global object
                    opts._register(nc)
                    nc.set_override('policy_file', path, group='oslo_policy')
                    nc.set_override('policy_dirs', [], group='oslo_policy')
                    with mock.patch.object(cfg, 'CONF', nc):
                        generator.validate_policy(args=['--namespace', 'verif'])
                    c['rc'] = 0             # returned without exiting: status 0
                except SystemExit as se:
                    c['rc'] = se.code if isinstance(se.code, int) else (0 if se.code is None else 1)
            else:
                c['rc'] = generator._validate_policy('verif')
    except Exception as ex:
        c['crashed'] = 1
        c['_exc'] = '%s: %s' % (type(ex).__name__, ex)
    finally:
        import logging
        logging.disable(logging.CRITICAL)
        try:
            conf.clear_override('policy_file', group='oslo_policy')
            conf.clear_override('policy_dirs', group='oslo_policy')
        except Exception:
            pass
        shutil.rmtree(d, ignore_errors=True)
    return c


def rand_graph(rng, nn):
    names = ['n%d' % i for i in range(1, nn + 1)]

    def body(size):
        if size <= 1:
            r = rng.random()
            if r < 0.6:
                return ev.rule(rng.choice(names + (['zz'] if rng.random() < 0.15 else [])))
            return L
        r = rng.random()
        if r < 0.3:
            return ev.Not(body(size - 1))
        return (ev.And if r < 0.65 else ev.Or)(*[body(max(1, (size - 1) // 2)) for _ in range(2)])
    # mostly acyclic (references forward) with occasional back edges
    rules = []
    if rng.random() < 0.3:
        names = names[:-1] + ['default']
    for i, n in enumerate(names):
        b = body(rng.choice([1, 2, 3, 5]))
        rules.append((n, b))
    if rng.random() < 0.6:
        # make it acyclic by renaming references to later names only
        def fwd(t, i):
            if t['k'] == 'rule' and t['name'] in names:
                later = names[i + 1:]
                return ev.rule(rng.choice(later)) if later else L
            if t['k'] == 'not':
                return ev.Not(fwd(t['a'], i))
            if t['k'] in ('and', 'or'):
                return {'k': t['k'], 'as': [fwd(c, i) for c in t['as']]}
            return t
        rules = [(n, fwd(b, i)) for i, (n, b) in enumerate(rules)]
    return rules


def run(ctx):
    q = ctx.quick
    res = tlc.run('MC_Validate', MC_CFG % (3, 'full'), coverage=not q, timeout=3400)
    ctx.add_mc('MC_Validate(3 names, full pool)', res)
    if not q:
        res = tlc.run('MC_Validate', MC_CFG % (4, 'tiny'), coverage=True, timeout=3400)
        ctx.add_mc('MC_Validate(4 names, pruned pool)', res)
    # negative control: the walkers as originally shipped (no descent into "not") must be caught
    neg = tlc.run('MC_Validate', (MC_CFG % (2, 'full')).replace('INVARIANT InvReportExact\nINVARIANT InvCleanTerminates\n', 'INVARIANT NegShippedWalkers\n'), timeout=3400)
    ctx.states += neg.distinct
    ctx.transitions += neg.generated
    if not any(v['name'] == 'NegShippedWalkers' for v in neg.violations):
        raise RuntimeError('negative control failed: TLC did not find a graph on which the shipped walkers miss a reference under not')
    ctx.note('negative control ok: the walkers as shipped (no descent into NotCheck) violate ReportExact (TLC counterexample found)')
    # liveness: on every rule set that validation accepts, the small-step evaluator
    # (one action per step of _check / And / Or / Not / RuleCheck) terminates under weak fairness
    res = tlc.run('EvalSS', SS_CFG % (3, 'pruned' if q else 'full'), coverage=not q, timeout=3400)
    ctx.add_mc('EvalSS(3 names, %s pool): Terminates (liveness), DepthBounded, ResultIsDenotation' % ('pruned' if q else 'full'), res)
    rng = ctx.rng
    cases = []
    names = ['n1', 'n2', 'n3']
    p = pool(names)
    combos = list(itertools.product(range(len(p)), repeat=3))
    rng.shuffle(combos)
    take = combos[:2500] if q else combos
    for combo in take:
        rules = [(names[i], p[b]) for i, b in enumerate(combo)]
        cases.append(check_case(rules, rng))
    n_enum = len(cases)
    for i in range(300 if q else 8000):
        g = rand_graph(rng, rng.randint(2, 6))
        if rng.random() < 0.35:
            g = hostile_names(g, rng)
        cases.append(check_case(g, rng, late=rng.random() < 0.3))
    n_check = len(cases)
    for i in range(120 if q else 2500):
        rules = rand_graph(rng, rng.randint(1, 4)) if rng.random() < 0.7 else [(names[j], p[b]) for j, b in enumerate(rng.choice(combos))]
        if rng.random() < 0.3:
            rules = hostile_names(rules, rng)
        r = rng.random()
        # part of the graph may live in registered defaults that the file does not override
        od = []
        if r >= 0.45 and len(rules) >= 2 and rng.random() < 0.5:
            k = rng.randint(1, len(rules) - 1)
            rules, od = rules[:k], rules[k:]
        cases.append(validator_case(rules, rng, missing=r < 0.1, unknown=0.1 <= r < 0.3, unparseable=0.3 <= r < 0.45, only_default=od))
    # rule texts with blanks around them (an indented or folded YAML scalar, a trailing newline): the same graph
    R_ = ev.role('r')
    shapes = [[('n1', ev.rule('n1'))], [('n1', ev.rule('n2')), ('n2', ev.Not(ev.rule('n1')))], [('n1', ev.And(R_, ev.rule('zz')))],
              [('n1', ev.Or(ev.rule('n2'), ev.rule('n3'))), ('n2', ev.rule('n4')), ('n3', ev.rule('n4')), ('n4', R_)],
              [('n1', ev.rule('n2')), ('n2', ev.rule('n3')), ('n3', ev.Or(R_, ev.Not(ev.rule('n1'))))], [('n1', ev.Not(ev.rule('n2'))), ('n2', ev.T)]]
    for pre, post in ((' ', ''), ('\t', ''), ('\n  ', '\n'), ('', ' '), ('  ', '  ')):
        for g in shapes:
            deco = (lambda t, pre=pre, post=post: pre + t + post)
            cases.append(check_case(g, rng, decorate=deco))
            cases.append(validator_case(g, rng, decorate=deco))
    rejected, st = tlc.judge_cases('Conf_Validate', [ec.strip_case(c) for c in cases], chunk=20000, timeout=3000)
    ctx.traces += len(cases)
    from harness import canary
    from checks import canaries
    canary.probe(ctx, 'Conf_Validate', [c for i, c in enumerate(cases, 1) if i not in set(rejected)], canaries.validate,
                 canary.by_cases('Conf_Validate', ec.strip_case))
    for i in rejected:
        c = cases[i - 1]
        if c['crashed']:
            key = 'crashed'
        elif c['kind'] == 'check':
            key = 'check_rules:' + ('accepts-bad-graph-or-nonterminating' if c['ok'] else 'flags-clean-graph')
        else:
            key = 'validator:rc=%s' % c['rc']
        ctx.violation(key, 'rule-set validation differs from "reports exactly undefined or cycle-reaching references"',
                      {k: c.get(k) for k in ('_texts', 'ok', 'raised', 'terminated', 'rc', 'missing', 'unknown', 'unparseable', '_exc', 'kind', '_registered_not_merged')})
    ctx.exhaustive = not q
    ctx.cover.update({'enumerated_graphs': n_enum, 'of_total': len(combos), 'random_graphs': n_check - n_enum, 'validator_runs': len(cases) - n_check,
                      'clean_graphs': sum(1 for c in cases if c.get('ok') == 1)})
    for c in cases[:3] + cases[n_enum:n_enum + 2] + cases[-2:]:
        ctx.sample({k: c.get(k) for k in ('kind', '_texts', 'ok', 'raised', 'terminated', 'rc', 'missing', 'unknown', 'unparseable')})
    ctx.assumptions += ['evaluation of clean graphs runs with the recursion limit lowered to 400 as watchdog']
