"""C09 - the effective policy is defaults, then the policy file, then policy.d
in sorted order; and which file is "the policy file".

MC  : spec/MC_Loader.tla with SpecAll - every configuration of four policy
      files (absent / four content kinds) and two ignored entries (dot-file,
      sub-directory), in two directories plus a configured-but-missing one:
      what the loader computes from scratch equals the declarative layering
      (FreshPolicy).  spec/MC_Pick.tla - the complete file-selection table,
      pick_default_policy_file as written equals the sentence.
S2C : the same configurations materialised in a temp tree (files created in
      an order different from their sort order, each independently JSON or
      YAML), a real Enforcer loaded, decisions for every name x every single
      role validated by spec/Trace_Loader.tla; the file-selection rows are
      run on real ConfigOpts objects (option left alone / set_defaults /
      config file / override) and judged by spec/Conf_Pick.tla.
"""
import itertools
import os
import shutil
import tempfile

from harness import tlc
from checks import loader_common as lc

MC_ALL = """SPECIFICATION SpecAll
CONSTANTS
 MaxOps = 100
 EnforceNew = %s
 Variant = "%s"
 StartWithMain = TRUE
 Overwrite = TRUE
 StartReg = TRUE
 Names <- MCNames
 MainFile = "main"
 Dirs <- MCDirs
 Loadable <- MCLoadable
 Ignored <- MCIgnored
 Defaults <- MCDefaults
INVARIANT FreshIsLayered
INVARIANT FreshExact
INVARIANT LongLivedEqualsFresh
PROPERTY Idempotent
CHECK_DEADLOCK FALSE
"""


def pick_rows():
    for arg in ('', 'explicit.yaml'):
        for loc in ('opt_default', 'set_default', 'user', 'set_override'):
            for val in ('policy.yaml', 'other.yaml'):
                if loc == 'opt_default' and val != 'policy.yaml':
                    continue
                for has_yaml, has_json, has_other, fallback in itertools.product((0, 1), repeat=4):
                    yield dict(arg=arg, loc=loc, val=val, hasYaml=has_yaml, hasJson=has_json, hasOther=has_other, fallback=fallback)
                    if fallback:
                        # the fallback switch left at its documented default (on): the argument is not passed at all
                        yield dict(arg=arg, loc=loc, val=val, hasYaml=has_yaml, hasJson=has_json, hasOther=has_other, fallback=1, _omit_fallback=1)


def run_pick(row):
    """build the situation of one row with real oslo.config objects"""
    from oslo_config import cfg
    from oslo_policy import opts, policy
    d = tempfile.mkdtemp(prefix='verif_pick_')
    saved = None
    c = dict(row)
    c.update({'kind': 'pick', 'raised': 0, 'picked': '', 'governs': '', 'existing': []})
    try:
        files = {'policy.yaml': row['hasYaml'], 'policy.json': row['hasJson'], 'other.yaml': row['hasOther'], 'explicit.yaml': 1}
        for fn, present in files.items():
            if present:
                with open(os.path.join(d, fn), 'w') as f:
                    f.write('{"n": "role:%s"}' % fn)
                c['existing'].append(fn)
        conf = cfg.ConfigOpts()
        args = ['--config-dir', d]
        if row['loc'] == 'user':
            with open(os.path.join(d, 'app.conf'), 'w') as f:
                f.write('[oslo_policy]\npolicy_file = %s\n' % row['val'])
        opts._register(conf)
        if row['loc'] == 'set_default':
            saved = [(o, o.default, o._set_location) for o in opts._options if o.name == 'policy_file'][0]
            opts.set_defaults(conf, policy_file=row['val'])
        conf(args, project='verif', default_config_files=[])
        if row['loc'] == 'set_override':
            conf.set_override('policy_file', row['val'], group='oslo_policy')
        conf.set_override('policy_dirs', [], group='oslo_policy')
        if row.get('_omit_fallback'):
            e = policy.Enforcer(conf, policy_file=row['arg'] or None)
        else:
            e = policy.Enforcer(conf, policy_file=row['arg'] or None, fallback_to_json_file=bool(row['fallback']))
        c['picked'] = e.policy_file
        for fn in files:
            if e.enforce('n', {}, {'roles': [fn]}):
                c['governs'] = fn
        c['_location'] = str(conf.get_location('policy_file', 'oslo_policy').location)
    except Exception as ex:
        c['raised'] = 1
        c['_exc'] = '%s: %s' % (type(ex).__name__, ex)
    finally:
        if saved is not None:
            # (the option object is process-global: its value and the place oslo.config says it was set are put back)
            saved[0].default, saved[0]._set_location = saved[1], saved[2]
        shutil.rmtree(d, ignore_errors=True)
    return c


def run(ctx):
    q = ctx.quick
    for variant, en in ([('split', False)] if q else [(v, e) for v in ('plain', 'renamed', 'split', 'same') for e in (False, True)]):
        res = tlc.run('MC_Loader', MC_ALL % ('TRUE' if en else 'FALSE', variant), coverage=not q, timeout=3400)
        ctx.add_mc('MC_Loader/SpecAll(%s,enforce_new=%s)' % (variant, en), res)
    res = tlc.run('MC_Pick', 'SPECIFICATION Spec\nINVARIANT OpIsDecl\nCHECK_DEADLOCK FALSE\n', workers=2)
    ctx.add_mc('MC_Pick', res)
    rng = ctx.rng
    # ---- layer configurations
    kinds = ['absent'] + lc.KINDS
    configs = list(itertools.product(kinds, kinds, kinds, kinds, (0, 1), (0, 1)))
    rng.shuffle(configs)
    take = configs[:300] if q else configs
    groups = {}
    for cfgv in take:
        files = dict(zip(['main', 'd1/a', 'd1/b', 'd2/a'], cfgv[:4]))
        present = [(f, k) for f, k in files.items() if k != 'absent']
        # creation order is shuffled so that it differs from the sort order
        rng.shuffle(present)
        h = [('write', f, k) for f, k in present]
        if cfgv[4]:
            h.insert(rng.randint(0, len(h)), ('ignored', 'd1/.hidden'))
        if cfgv[5]:
            h.insert(rng.randint(0, len(h)), ('ignored', 'd1/sub'))
        h.append(('load', False))
        groups.setdefault((rng.choice(lc.VARIANTS), rng.random() < 0.5), []).append(h)
    n = 0
    # the same directory configured twice ("each configured policy directory in configured order"):
    # policy_dirs = d1, d2, d1, d3 - d1's files are applied again after d2's
    dup = {}
    for key, hs in sorted(groups.items()):
        for h in hs:
            if rng.random() < 0.12 and any(op[0] == 'write' and op[1] == 'd2/a' for op in h) and any(op[0] == 'write' and op[1].startswith('d1/') for op in h):
                dup.setdefault(key, []).append(h)
    for (variant, en), hs in sorted(dup.items()):
        traces = [lc.run_history(rng, variant, en, h, dup_dirs=True) for h in hs]
        n += len(traces)
        for idx, why, step in lc.judge_traces(ctx, variant, en, traces, dup_dirs=True):
            ctx.violation('layering-dirs-repeated:%s' % why, 'with a policy directory configured twice the effective policy is not the layering in configured order: ' + why,
                          {'variant': variant, 'enforce_new_defaults': en, 'why': why, 'policy_dirs': 'd1, d2, d1, d3', 'trace': traces[idx]})
    ctx.cover['configurations_with_repeated_directory'] = sum(len(v) for v in dup.values())
    # a configured directory that does not exist is skipped wherever it stands in the list - also FIRST
    af = {}
    for key, hs in sorted(groups.items()):
        for hi, h in enumerate(hs):
            if hi % 7 == 3 and any(op[0] == 'write' and '/' in op[1] for op in h):
                af.setdefault(key, []).append(h)
    for (variant, en), hs in sorted(af.items()):
        traces = [lc.run_history(rng, variant, en, h, absent_first=True) for h in hs]
        n += len(traces)
        for idx, why, step in lc.judge_traces(ctx, variant, en, traces, absent_first=True):
            ctx.violation('layering-missing-dir-first:%s' % why, 'with a missing policy directory configured before the existing ones the effective policy is not the layering: ' + why,
                          {'variant': variant, 'enforce_new_defaults': en, 'why': why, 'policy_dirs': 'd3 (missing), d1, d2', 'trace': traces[idx]})
    ctx.cover['configurations_with_missing_directory_first'] = sum(len(v) for v in af.values())
    for (variant, en), hs in sorted(groups.items()):
        traces = [lc.run_history(rng, variant, en, h) for h in hs]
        n += len(traces)
        for idx, why, step in lc.judge_traces(ctx, variant, en, traces):
            tr = traces[idx]
            layers = sorted({e['f'] for e in tr if 'f' in e})
            ctx.violation('layering:%s' % why, 'effective policy of a freshly loaded enforcer differs from the layering order: ' + why,
                          {'variant': variant, 'enforce_new_defaults': en, 'why': why, 'files_present': layers, 'trace': tr})
        if len(ctx.samples) < 4:
            ctx.sample({'variant': variant, 'enforce_new_defaults': en, 'trace': traces[0]})
    # ---- "a missing policy file or missing directories are simply skipped; names defined nowhere
    # stay undefined, registered defaults apply" also when the files that defined them have gone
    for variant, en in (('plain', True), ('renamed', False), ('split', True)):
        hs = [[('write', 'd1/a', 'new'), ('load', False), ('delete', 'd1/a'), ('load', False)],
              [('write', 'd2/a', 'both'), ('ignored', 'd1/.hidden'), ('load', False), ('delete', 'd2/a'), ('load', False), ('load', False)],
              [('write', 'main', 'new'), ('load', False), ('delete', 'main'), ('load', False)],
              # a directory file replaced by renaming another into place (its own mtime equal / older, the
              # directory's newer): the layering is over the files as they are now
              [('write', 'd1/a', 'new'), ('load', False), ('replace', 'd1/a', 'new', False), ('load', False)],
              [('write', 'main', 'new'), ('write', 'd1/b', 'both'), ('write', 'd1/a', 'new'), ('load', False), ('replace', 'd1/a', 'new', True), ('load', False), ('load', False)],
              [('write', 'd2/a', 'old'), ('load', False), ('replace', 'd2/a', 'new', True), ('load', False)],
              # layers that define no name at all, in every spelling of "nothing" (no bytes, {}, comments only,
              # a bare document marker, blank lines): skipped like a missing file, the other layers apply
              [('write', 'main', 'new'), ('empty', 'main'), ('write', 'd1/a', 'old'), ('load', False)],
              [('write', 'd1/a', 'new'), ('write', 'd1/b', 'old'), ('empty', 'd1/b'), ('write', 'main', 'both'), ('load', False)],
              [('write', 'd2/a', 'new'), ('write', 'main', 'old'), ('empty', 'd2/a'), ('empty', 'main'), ('load', False)],
              [('write', 'd1/a', 'both'), ('empty', 'd1/a'), ('write', 'd2/a', 'both'), ('load', False), ('empty', 'd2/a'), ('load', False)]]
        traces = [lc.run_history(rng, variant, en, h) for h in hs]
        n += len(traces)
        for idx, why, step in lc.judge_traces(ctx, variant, en, traces):
            ctx.violation('layering-after-removal:%s' % why, 'after the files that defined a policy were removed, the effective policy is not the layering of what is left: ' + why,
                          {'variant': variant, 'enforce_new_defaults': en, 'why': why, 'trace': traces[idx][:step]})
    # ---- which file is the policy file
    rows = list(pick_rows())
    cases = [run_pick(r) for r in rows]
    rejected, st = tlc.judge_cases('Conf_Pick', [{k: v for k, v in c.items() if not k.startswith('_')} for c in cases])
    ctx.traces += len(cases)
    from harness import canary
    from checks import canaries
    canary.probe(ctx, 'Conf_Pick', [c for i, c in enumerate(cases, 1) if i not in set(rejected)], canaries.pick,
                 canary.by_cases('Conf_Pick', lambda c: {k: v for k, v in c.items() if not k.startswith('_')}))
    for i in rejected:
        c = cases[i - 1]
        ctx.violation('file-selection:loc=%s' % c['loc'], 'the enforcer uses a different policy file than the selection rule of C09 says',
                      {k: c[k] for k in c})
    ctx.sample({'file_selection_row': {k: v for k, v in cases[5].items()}})
    ctx.exhaustive = not q
    ctx.cover.update({'layer_configurations': n, 'of_total': len(configs), 'file_selection_rows': len(cases)})
    ctx.assumptions += ['file formats (JSON / YAML flow / YAML block) are chosen per file by the harness; the specification has no notion of format',
                        'when the service changed the library default to another file name, "the configured one" is that name (the fallback concerns policy.yaml only)']
