"""C14 - evaluating a rule never crashes; what cannot be evaluated denies.

MC  : spec/MC_Leaves.tla (generic mode: every path into every credential
      shape has a defined outcome, deny when the path runs into a
      non-container) and spec/MC_Scope.tla invariant InvDocumented (the
      outcome alphabet of Enforce holds the documented exceptions only).
C2S : random acyclic rule sets whose leaves are drawn from a hostile
      alphabet (Python keywords, operators, brackets, digits, dots, quotes;
      "%" only inside well-formed %(name)s), credentials with every JSON
      type at every path position, flat targets with every JSON type;
      spec/Conf_Eval.tla has no action for an exception outside the
      documented ones, so such a trace is rejected.
"""
from harness import ev, tlc
from checks import eval_common as ec
from checks import c05, c08

HOSTILE_LHS = ['class', 'def', 'None', 'True', 'lambda', 'import', 'is', 'in', 'if', 'else', 'yield', 'await', 'print',
               '1+', '+1', 'a-b', 'a*b', '~a', 'a|b', 'a&b', '-', '+', '*', '**', '/', '//', '<', '==', '!=', '@@', '1+2j',
               '[', ']', '{', '}', '[]', '{}', '[1', '1]', '{[1]}', '{[]}', '{{}}', '{1,[2]}', '[[]]', '[{}]', '{1,2}', '[1,', '(1,)x',
               '0', '1', '00', '007', '1_0', '0x', '0x1f', '1e', '1e5', '1.', '.5', '1..2', '1.2.3', '9' * 40,
               '.', '..', 'a.', '.a', 'a..b', 'a.0', 'a.b.0', '0.a', 'a.b.c.d.e', 'a.-1', 'a.b.', 'b.None',
               "'", '"', "'a", "a'", '"a', "''", '""', "'''", "'a'b'", "'a\"", 'a\'b', "b'x'", "r'x'", "f'x'", "u'x'", "'\\'",
               '\\', '\\n', 'a\\', '#', 'a#b', '$', 'a;b', 'a,b', ',', 'a=b', '`a`', 'a?b', 'é', 'λ.b', 'a.é', '中',
               '[' * 60 + ']' * 60, '[' * 300, '0x' + 'f' * 3600, '0b' + '1' * 15000, '9' * 5000, '0o' + '7' * 5000, '-' * 50 + '1', 'not.a', 'and.b', 'a.and', 'rule', 'role', 'http', '__class__', 'a.__class__', 'roles', 'roles.0',
               # names of Python attributes of the values a path may stop at (a path never reaches INTO a scalar)
               'real', 'imag', 'numerator', 'denominator', 'real.real', '__doc__', '__class__.__name__', 'b.real', 'keys', 'values', 'upper']
HOSTILE_RHS = ['v', '1', 'None', 'True', "'", '"', '[', '{', '}', ']', '\\', 'class', '1+', 'a.0', ':', '::', 'a:b', '#', 'é']
KINDS_OK = ['role', 'rule', 'http', 'https']   # kinds with their own handler (remote checks are C16's subject); everything else is a generic check


def rand_creds_value(rng, depth):
    r = rng.random()
    if depth <= 0 or r < 0.35:
        return rng.choice(['v', 'str', '', 1, 0, 1.5, True, False, None, -1, 'é'])
    if r < 0.65:
        return {k: rand_creds_value(rng, depth - 1) for k in rng.sample(['a', 'b', 'c', '0', 'é', '-1', ''], rng.randint(0, 3))}
    if r < 0.9:
        return [rand_creds_value(rng, depth - 1) for _ in range(rng.randint(0, 3))]
    return [[rand_creds_value(rng, depth - 2)], []]


def hostile_leaf(rng):
    r = rng.random()
    if r < 0.7:
        lhs = rng.choice(HOSTILE_LHS)
        if rng.random() < 0.3:
            lhs = rng.choice(['a', 'b', 'a.b', 'a.b.c']) + rng.choice(['', '.']) + lhs
        if lhs.startswith('(') or lhs.endswith(')') or ':' in lhs or lhs.split(':')[0] in KINDS_OK or not lhs:
            lhs = 'a.' + lhs.strip('()').replace(':', '') + 'x'
        if rng.random() < 0.5:
            parts = [ev.ph(rng.choice(['t', 'x.y', 'n', 'x.y', 'n.m', 'x.y.z', 't.']))]
        else:
            rhs = rng.choice(HOSTILE_RHS)
            parts = [rhs]
        leaf = ev.generic(lhs, *parts)
        txt = ev.leaf_text(leaf)
        if len(txt) >= 2 and txt[0] == txt[-1] and txt[0] in '\'"':
            # a word that starts and ends with the same quote is a quoted string, not a check
            leaf = ev.generic(lhs, *(parts + ['x']))
        return leaf
    if r < 0.85:
        x = rng.choice(HOSTILE_RHS + HOSTILE_LHS[:40])
        if x.endswith(')') or '%' in x or not x:
            x = 'x'
        return ev.role(x) if rng.random() < 0.6 else ev.role(ev.ph(rng.choice(['t', 'n', 'missing', 'x.y', 'n.m'])))
    return rng.choice([ev.T, ev.F, ev.role('r1')])


def body(rng, later, size):
    if size <= 1:
        if later and rng.random() < 0.3:
            return ev.rule(rng.choice(later + ['zz']))
        return hostile_leaf(rng)
    r = rng.random()
    if r < 0.2:
        return ev.Not(body(rng, later, size - 1))
    kids = [body(rng, later, max(1, (size - 1) // 2)) for _ in range(rng.choice([2, 2, 3]))]
    return (ev.And if r < 0.6 else ev.Or)(*kids)


TVALS = ['v', 1, 0, 1.5, True, False, None, '', 'é', [1, 'a'], {'k': 'v'}, [], {}]


def run(ctx):
    q = ctx.quick
    res = tlc.run('MC_Leaves', c05.MC_CFG, timeout=3000)
    ctx.add_mc('MC_Leaves(generic)', res)
    res = tlc.run('MC_Scope', c08.MC_CFG, timeout=3000)
    ctx.add_mc('MC_Scope', res)
    rng = ctx.rng
    cases = []
    lhs_seen = set()
    for g in range(500 if q else 15000):
        nn = rng.randint(1, 4)
        names = ['p:n%d' % i for i in range(1, nn + 1)]
        rules = [(n, body(rng, names[i + 1:], rng.choice([1, 1, 2, 3, 5]))) for i, n in enumerate(names)]
        creds = {k: rand_creds_value(rng, rng.randint(0, 3)) for k in rng.sample(['a', 'b', 'c', '0', 'é'], rng.randint(0, 4))}
        creds['roles'] = rng.choice([[], ['r1'], ['x', "'", 'class']])
        if rng.random() < 0.15:
            del creds['roles']          # no role list at all (role checks deny)
            creds['user_id'] = 'u1'
        # (a placeholder name is one flat key, dots and all: the target may also hold its first component)
        target = {k: rng.choice(TVALS) for k in rng.sample(['t', 'x.y', 'n', 'other', 'x', 'x'], rng.randint(0, 5))}
        for k in range(2):
            qn = rng.choice(names + ['p:zz'])
            call = {'by': 'name', 'name': qn, 'doraise': 1 if rng.random() < 0.3 else 0}
            if rng.random() < 0.15:
                call = {'by': 'check', 'tree': dict(rules)[names[0]], 'doraise': call['doraise']}
            credskind = 'map'
            creds_obj = None
            if rng.random() < 0.03:
                credskind, creds_obj = 'bad', rng.choice([['a'], 'creds', 7, ('x',)])
            call['credskind'] = credskind
            if call['by'] == 'name' and rng.random() < 0.2:
                call.update({'authorize': 1, 'doraise': 1, 'custom': 1, 'xargs': [1, 'two'], 'xkw': {'k': 3}})
            registered = [(n, []) for n in names] if call.get('authorize') else ()
            escope = True
            cr = creds
            if rng.random() < 0.25:
                # scope types on the registered policies, and scope attributes of any JSON type in the credentials
                registered = [(n, rng.choice([['project'], ['system'], ['domain'], ['system', 'domain']])) for n in names]
                escope = rng.random() < 0.7
                cr = dict(creds)
                cr[rng.choice(['system', 'system_scope', 'domain_id', 'project_id'])] = rng.choice(
                    [{'all': True}, ['all'], 1, True, 'all', {}, 0, 7, 1.5, None, [], {'id': 'd'}, 'p'])
            cases.append(ec.enforce_case(rules, call, target, cr, dflt=rng.choice([('opt', None), ('name', names[-1])]),
                                         want='c14', creds_obj=creds_obj, registered=registered, enforce_scope=escope,
                                         via=rng.choice(['rules_obj', 'rules_obj', 'dict', 'main_file', 'dir_only'])))
        for n, t in rules:
            for sx in ev.tree_strings(t, []):
                lhs_seen.add(sx)
    # every hostile lhs at least once against every kind of value at the stopping point
    stops = ['str', 1, 1.5, True, None, [], ['x'], [['x']], {}, {'b': 'v'}, [{'b': 'v'}], [[{'b': 'v'}]]]
    for lhs in HOSTILE_LHS:
        if lhs.startswith('(') or lhs.endswith(')') or ':' in lhs:
            continue
        for stop in (stops if not q else rng.sample(stops, 4)):
            for pre in ('', 'a.'):
                # right side: a fixed word, or the string form of the value the path stops at (and of 0 / int)
                for rhs in ['v'] + ([str(stop), '0', 'int'] if isinstance(stop, (int, float, bool)) and not (q and rng.random() < 0.5) else []):
                    leaf = ev.generic(pre + lhs, rhs)
                    if leaf['_lhs'].split(':')[0] in KINDS_OK:
                        continue
                    cases.append(ec.enforce_case([('p:x', leaf)], {'by': 'name', 'name': 'p:x'}, {}, {'a': stop, 'roles': []},
                                                 dflt=('opt', None), want='c14'))
    # checks behind a rule: reference see the same target and credentials as anywhere else - the target
    # may hold keys named like credential attributes, with values of any type
    for junk in (5, None, True, 'r1', ['r1'], [5], {'r1': 1}):
        for leaf in (ev.role('r1'), ev.generic('enabled', 'True'), ev.generic('True', ev.ph('enabled')), ev.generic('roles', 'r1'),
                     ev.generic('user.id', ev.ph('user.id'))):
            for shape in ('alias', 'chain', 'not_alias'):
                rules = {'alias': [('p:x', ev.rule('p:y')), ('p:y', leaf)],
                         'chain': [('p:x', ev.rule('p:y')), ('p:y', ev.Or(ev.F, ev.rule('p:z'))), ('p:z', leaf)],
                         'not_alias': [('p:x', ev.Not(ev.rule('p:y'))), ('p:y', leaf)]}[shape]
                if q and (len(shape) + len(str(junk)) + len(ev.rule_text(leaf))) % 2:
                    continue
                cases.append(ec.enforce_case(rules, {'by': 'name', 'name': 'p:x'}, {'roles': junk, 'enabled': junk, 'user.id': 'u1'},
                                             {'roles': ['r1'], 'enabled': True, 'user': {'id': 'u1'}}, dflt=('opt', None), want='c14'))
    # a path never reaches INTO a scalar: attribute names of Python numbers / booleans / strings as the
    # segment after one, with right sides that spell what such an attribute would hold
    for attr in ('real', 'imag', 'numerator', 'denominator', 'real.real', '__class__.__name__', 'upper', 'keys'):
        for stop in (5, True, 1.5, 0, 'abc'):
            for rhs in ('5', '0', '1', 'True', '1.5', 'int', 'bool', 'ABC'):
                if q and (len(attr) + len(rhs) + len(str(stop))) % 3 == 0:
                    continue
                cases.append(ec.enforce_case([('p:x', ev.generic('a.' + attr, rhs))], {'by': 'name', 'name': 'p:x'}, {}, {'a': stop, 'roles': []},
                                             dflt=('opt', None), want='c14'))
    # a rule whose whole text is one quoted word is not a check: it denies (directly, behind a reference, as
    # an operand), it does not become something that cannot be called
    for word in ('""', "''", "'1'", '"."', "'class'", '"a.b"', "'%(t)s'", '"\\"'):
        for shape in ('self', 'alias', 'not_alias', 'or_operand', 'grouped'):
            texts = {'self': {'p:x': word}, 'alias': {'p:x': 'rule:p:y', 'p:y': word}, 'not_alias': {'p:x': 'not rule:p:y', 'p:y': word},
                     'or_operand': {'p:x': 'rule:p:y or role:r1', 'p:y': word}, 'grouped': {'p:x': '(' + word + ')'}}[shape]
            trees = {'self': [('p:x', ev.F)], 'alias': [('p:x', ev.rule('p:y')), ('p:y', ev.F)], 'not_alias': [('p:x', ev.Not(ev.rule('p:y'))), ('p:y', ev.F)],
                     'or_operand': [('p:x', ev.Or(ev.rule('p:y'), ev.role('r1'))), ('p:y', ev.F)], 'grouped': [('p:x', ev.F)]}[shape]
            for doraise in (0, 1):
                for route in ('rules_obj', 'main_file'):
                    e = ev.make_enforcer(texts, ('opt', None), via=route)
                    cases.append(ec.enforce_case(trees, {'by': 'name', 'name': 'p:x', 'doraise': doraise}, {'t': 'v'}, {'roles': ['r1'] if doraise else []},
                                                 dflt=('opt', None), want='c14', enforcer=e, extra={'_texts': texts, '_via': route}))
    bad = ec.judge(ctx, cases, chunk=3000)       # (long hostile texts make big case files: small chunks)
    # "returns a decision": with built-in checks only, what enforce returns is True or False - not None, not
    # whatever an operand happened to leave behind
    for c in cases:
        if c['obs']['o'] == 'ret' and c.get('_raw_type') not in ('bool', None) and c not in bad:
            d = ec.describe(c)
            d['returned_type'] = c.get('_raw_type')
            ctx.violation('returned-non-decision:' + str(c.get('_raw_type')), 'enforce returned a value that is neither True nor False for a rule made of built-in checks', d)
    for c in bad:
        o = c['obs']
        key = ('escaped:' + o['cls']) if o['o'] == 'raise' and o['cls'] not in (
            'PolicyNotAuthorized', 'Custom', 'InvalidScope', 'InvalidContextObject', 'PolicyNotRegistered') else 'decision'
        ctx.violation(key, 'enforce let an undocumented exception escape, or decided differently from the specification', ec.describe(c))
    ctx.cover.update({'rule_set_calls': len(cases), 'hostile_lhs_forms': len(HOSTILE_LHS), 'distinct_leaf_strings_used': len(lhs_seen),
                      'allowing_cases': sum(1 for c in cases if c['obs'].get('v') == 1)})
    for c in cases[:6] + cases[-3:]:
        ctx.sample(ec.sample(c))
    ctx.assumptions += ['leaves contain no whitespace, no edge parentheses, and "%" only in well-formed %(name)s placeholders (the quantifier of C14)',
                        'roles is a list of strings']
