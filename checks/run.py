#!/venv/bin/python
"""Entry point:  run.py <Cxx> [--tier quick|thorough] [--seed N]"""
import importlib
import os
import sys

sys.path.insert(0, os.path.dirname(os.path.dirname(os.path.abspath(__file__))))
os.environ.setdefault('PYTHONHASHSEED', '0')

from harness import core  # noqa: E402


def main():
    if len(sys.argv) < 2:
        print('usage: run.py Cxx [--tier quick|thorough] [--seed N]')
        return 2
    pid = sys.argv[1].upper()
    try:
        mod = importlib.import_module('checks.%s' % pid.lower())
    except Exception:
        import traceback
        traceback.print_exc()
        return 2
    def run(ctx):
        mod.run(ctx)
        if not ctx.quick:
            # thorough tier: the specification mutants that belong to this property must be killed
            from checks import negctl
            negctl.run_for(ctx, pid)
    return core.main(pid, run, sys.argv[2:])


if __name__ == '__main__':
    sys.exit(main())
