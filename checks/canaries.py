"""Corruptors for the binding canaries (harness/canary.py): how the observed
part of a recorded case of each family is altered against the property."""
from harness.canary import toggle


def parser(c, rng):
    k = c['kind']
    if k == 'text':
        if c.get('empty') or c.get('blank') or c['want'] == 'c02':
            if c['raised']:
                return None
            c['raised'] = 1                      # loading / evaluating a string never fails
            return c, True
        if c['raised']:
            return None
        if c['want'] == 'c15':
            c['table2'] = toggle(c['table2'], [])          # the re-parsed rule decides differently
            return c, True
        c['table'] = toggle(c['table'], [])                 # c01: no claim on non-sentences
        return c, False
    if k == 'list':
        if c['raised']:
            return None
        if c['want'] == 'c15':
            c['table2'] = toggle(c['table2'], [])
        else:
            c['table'] = toggle(c['table'], [])
        return c, True
    if k == 'value':
        c['outcome'] = 'deny' if c['outcome'] == 'allow' else 'allow'
        return c, True
    if k == 'dump':
        if c['raised'] or not c['present']:
            return None
        c['table2'] = toggle(c['table2'], [])
        return c, True
    if k == 'ctx':
        c['indoc'] = 'deny' if c['alone'] != 'deny' else 'allow'
        return c, True
    return None


def evalcase(c, rng):
    k = c.get('kind')
    if k in ('enforce', 'http'):
        o = c['obs']
        if rng.random() < 0.25:
            o['target_unchanged'] = 0
            return c, True
        if o['o'] == 'ret':
            o['v'] = 0 if o['v'] else 1          # (strict / loose look-up may leave both open: not "certain")
            return c, False
        o.update({'o': 'ret', 'v': 1, 'cls': ''})
        return c, False
    if k == 'pair':
        if c['a']['o'] == 'raise':
            return None
        c['a']['v'] = 0 if c['a']['v'] else 1
        return c, True
    if k == 'same':
        if c['a']['o'] != 'ret':
            return None
        c['a']['v'] = 0 if c['a']['v'] else 1
        return c, True
    return None


def session(s, rng):
    """s: a Trace_Store trace (dict init/events)"""
    idx = [i for i, e in enumerate(s['events']) if e.get('op') == 'enforce' and e['obs']['o'] == 'ret']
    if not idx:
        return None
    e = s['events'][rng.choice(idx)]
    e['obs']['v'] = 0 if e['obs']['v'] else 1
    return s, False


def loader_trace(tr, rng):
    idx = [i for i, e in enumerate(tr) if e.get('op') == 'load' and not e['raised']]
    if not idx:
        return None
    e = tr[rng.choice(idx)]
    n = rng.choice(sorted(e['dec']))
    e['dec'][n] = toggle(e['dec'][n], 'dflt')    # the long-lived enforcer decides differently from the specified state
    return tr, True


def validate(c, rng):
    if c['crashed']:
        return None
    if c['kind'] == 'check':
        c['ok'] = 0 if c['ok'] else 1
        return c, True
    c['rc'] = 0 if c['rc'] else 1
    return c, True


def sample(c, rng):
    if c['crashed'] or not c['uncommented']:
        return None
    c['uncommented'] = c['uncommented'][1:]      # one default not stated
    return c, True


def tools(c, rng):
    if c['crashed'] or not c['roles']:
        return None
    c['before']['n'] = toggle(c['before']['n'], c['roles'][0])
    return c, True


def checker(c, rng):
    if c['crashed'] or not c['lines']:
        return None
    l = c['lines'][0]
    c['lines'][0] = ['failed' if l[0] == 'passed' else 'passed', l[1]]
    return c, True


def pick(c, rng):
    if c['raised']:
        return None
    c['picked'] = c['picked'] + '.other'
    return c, True


def loadermt(c, rng):
    if c['crashed']:
        return None
    c['allow'] = 0 if c['allow'] else 1          # rejected when old and new policy agree on the role
    return c, False
