#!/venv/bin/python
"""Writes /verif/MANIFEST.json from the table below (and validates it)."""
import json
import os

ROOT = os.path.dirname(os.path.dirname(os.path.abspath(__file__)))

TB = ('TLC 1.8; the TLA+ modules under /verif/spec; the alpha/gamma maps of /verif/harness (renderer, independent '
      'splitter, value encoder, outcome normaliser); Python built-ins str/str.lower/ast.literal_eval/json/yaml as '
      'definitions of string form, case, literal and file syntax')

CHECKS = {
    'C01': dict(
        technique='TLC model checking of the shift-reduce machine vs the documented grammar + TLC-judged conformance of real parse/evaluate executions (code->spec)',
        text='MC: spec/MC_Parser.tla explores every token sequence up to MaxLen through the seven-reducer machine as implemented and checks equality of accept/decision table with the recursive-descent grammar. Conformance: the same complete space plus random expressions up to ~60 tokens with lexical variants and list-of-lists shapes are run through the real parse_rule/Rules.load/Enforcer.enforce under all 2^k assignments; spec/Conf_Parser.tla has TLC compute the grammar table for each recorded input and compare.',
        ref='DESIGN.md 4/C01'),
    'C02': dict(
        technique='TLC model checking (FailClosed) + TLC-judged conformance on rejected sequences, corruptions, garbage and the non-rule value universe',
        text='MC: every token sequence up to MaxLen incl. quoted strings/colon-less checks: what the grammar rejects denies under every assignment. Conformance: the rejected half of that space, corrupted valid rules, word soups, ASCII/Unicode garbage and every JSON/YAML value class through parse_rule/Rules.load/Rules.from_dict+enforce; TLC decides from the token image whether the input is a sentence and which outcomes the statement allows.',
        ref='DESIGN.md 4/C02'),
    'C03': dict(
        technique='TLC model checking of the rule store/default-rule table + TLC-judged conformance of real Enforcer executions over the enumerated table',
        text='MC: spec/MC_Default.tla enumerates every rule set over three names with bodies from a pool, every default-rule configuration, every queried name: Enforce (transcribed from the code) equals the decision table of C03. Conformance: the table is replayed against real Enforcers (default rule via constructor, option, check object, unset; rule set supplied as Rules object, dict, constructor argument) and every execution is judged by spec/Conf_Eval.tla.',
        ref='DESIGN.md 4/C03'),
    'C04': dict(
        technique='TLC model checking of the role check over an abstract alphabet with explicit case map + TLC-judged conformance of real enforce calls (incl. long-lived sessions)',
        text='MC: spec/MC_Leaves.tla (role mode) - operational RoleCheck = the sentence of C04, folding applied to both sides. Conformance: exhaustive pairs over a small mixed-case alphabet, random role lists over ASCII/Latin-1/Cyrillic/Greek with literal and placeholder X, missing keys/roles, nested in not/and/or/alias, and sessions reusing one enforcer and one credentials dict edited in place; judged by spec/Conf_Eval.tla with the case map handed to TLC.',
        ref='DESIGN.md 4/C04'),
    'C05': dict(
        technique='TLC model checking of the path walk vs the reached-values sentence + TLC-judged conformance on random nested credentials',
        text='MC: spec/MC_Leaves.tla (generic mode) - every credential tree of depth <= 3 x paths: operational walk = declarative reach set; the open corner (list directly in a list) is the only place two readings differ. Conformance: random checks (literal lhs of every kind, dotted paths depth 1..4, literal/placeholder rhs) against random nested credentials; TLC accepts either reading of the corner, never a raise.',
        ref='DESIGN.md 4/C05'),
    'C06': dict(
        technique='TLC model checking of alias transparency/inlining/probe log + TLC-judged conformance on random rule graphs with textual inlining',
        text='MC: spec/MC_Alias.tla - rule graphs over three names: a reference decides as the referenced name, inlining any reference occurrence preserves decisions, probes are told the enforced name. Conformance: random acyclic graphs up to 8 names (chains to depth 8, diamonds, undefined links, default fallback, 3- and 4-argument custom checks); decisions and probe logs judged by spec/Conf_Eval.tla; every sampled reference is inlined textually and compared.',
        ref='DESIGN.md 4/C06'),
    'C07': dict(
        technique='TLC model checking of the return/raise surface + TLC-judged conformance of call histories on long-lived enforcers with debug logging toggled',
        text='MC: spec/MC_Scope.tla and spec/MC_Default.tla - raise iff falsy, raised class, allow never raises, do_raise never falsy, PolicyNotRegistered before anything. Conformance: rule sets from the generators crossed with do_raise, custom exception class and arguments, by name/check object, authorize, scope mismatch, bad credentials, debug logging on/off, as histories on one enforcer; each call and each pair judged by spec/Conf_Eval.tla.',
        ref='DESIGN.md 4/C07'),
    'C08': dict(
        technique='TLC model checking of the complete scope table + TLC-judged conformance of the table on real Enforcers with three credential representations',
        text='MC: spec/MC_Scope.tla - the complete finite table, Enforce = the sentence of C08 and token precedence system > domain > project. Conformance: the table (sampled in quick, complete in thorough) against real Enforcers with RequestContext / to_policy_values() / dict credentials; judged by spec/Conf_Eval.tla.',
        ref='DESIGN.md 4/C08'),
    'C09': dict(
        technique='TLC model checking of the loader over every file configuration + trace validation of real fresh loads (spec/Trace_Loader.tla) + TLC-judged file-selection table',
        text='MC: spec/MC_Loader.tla (SpecAll) enumerates every configuration of four policy files, a dot-file and a sub-directory in two directories plus a missing one: LoadRules from scratch (transcribed from load_rules/_load_policy_file/read_cached_file) = the declarative layering FreshPolicy. spec/MC_Pick.tla: file selection as written = the sentence. Conformance: the configurations are materialised on disk (creation order differs from sort order, JSON/YAML per file), loaded by a real Enforcer, and the recorded trace is validated by spec/Trace_Loader.tla; the file-selection rows run on real ConfigOpts and are judged by spec/Conf_Pick.tla.',
        ref='DESIGN.md 4/C09'),
    'C10': dict(
        technique='TLC model checking of all bounded file-system/load histories + trace validation of real histories against the same actions (spec/Trace_Loader.tla)',
        text='MC: spec/MC_Loader.tla explores every history of write/empty/touch/delete/rename-into-place on the main file and three directory files, ignored entries, late registration, loads and forced loads up to MaxOps ticks, with the policy directories existing from the start or appearing with their first file: LongLivedEqualsFresh, CacheCoherent, Idempotent. Conformance: exhaustive short histories and random histories up to 40 steps are replayed on real files with os.utime-controlled mtimes against a long-lived real Enforcer and a fresh one at every load; each recorded event must be explained by the corresponding spec action and the observed decisions must equal those of the spec state and of the declarative layering.',
        ref='DESIGN.md 4/C10'),
    'C11': dict(
        technique='TLC model checking of the deprecated-rule procedure vs the override table on every file configuration + trace validation of every table row on real Enforcers',
        text='MC: spec/MC_Loader.tla (SpecAll) for eleven deprecation variants (renamed / same name / split / shared, equal check strings, the empty check string on either side) x enforce_new_defaults: HandleDeprecated (branch for branch) = C11Body (the sentence). Conformance: every row of the table on real Enforcers with real DeprecatedRule objects, textual variants of check strings, arbitrary reason/since; validated by spec/Trace_Loader.tla.',
        ref='DESIGN.md 4/C11'),
    'C12': dict(
        technique='TLC model checking of reload idempotence + trace validation of multi-enforcer interleavings projected per enforcer, with object snapshots',
        text='MC: spec/MC_Loader.tla action property Idempotent and LongLivedExact over bounded histories. Conformance: every interleaving up to length 3-4 of load/forced load/enforce/edit across two real Enforcers (random ones across three) built from one shared list of default objects with different files/options; each enforcer\'s projection is validated by spec/Trace_Loader.tla, the printed rule set must not change on a repeated load, and attribute snapshots of the caller-owned objects must stay equal.',
        ref='DESIGN.md 4/C12'),
    'C16': dict(
        technique='TLC model checking of the reply rule / fault / request over an alphabet around the accepted form + TLC-judged conformance with the transport stubbed below the requests API',
        text='MC: spec/MC_Http.tla - every reply body up to MaxBody characters x faults x six nesting contexts: strip-and-compare = the sentence, faults never decide, short-circuit sends nothing, the request names the enforced policy. Conformance: real enforce calls with requests.adapters.HTTPAdapter.send replaced; reply bodies, status codes, content types, timeout/connection/TLS faults, nested and opaque target values; the decoded request and the decision are judged by spec/Conf_Eval.tla (HttpOK).',
        ref='DESIGN.md 4/C16'),
    'C13': dict(
        technique='TLC model checking of the two validation walkers vs an independent graph analysis on all small rule graphs + TLC-judged conformance of real check_rules / validator runs',
        text='MC: spec/MC_Validate.tla - every rule graph over 3 (thorough also 4) names with references at top level, under not, under and/or and in nested groups: the walkers as coded (per-branch copies of the visited set) report exactly the graphs with an undefined or cycle-reaching reference; clean graphs evaluate within reference depth |names|. Conformance: the enumerated graphs and random graphs on up to 6 names on real Enforcers (check_rules, raise_on_violation, generator._validate_policy with missing file / unknown name / unparseable rule), clean graphs evaluated under a recursion watchdog; judged by spec/Conf_Validate.tla against the independent analysis.',
        ref='DESIGN.md 4/C13'),
    'C14': dict(
        technique='TLC model checking of totality of the outcome alphabet + TLC-judged conformance with hostile leaf texts (an undocumented exception has no spec action)',
        text='MC: spec/MC_Leaves.tla and spec/MC_Scope.tla - every path into every credential shape has a defined outcome; Enforce raises documented classes only. Conformance: random acyclic rule sets with leaves from a hostile alphabet against credentials/targets holding every JSON type at every position; spec/Conf_Eval.tla rejects any trace whose outcome is an exception outside the documented set.',
        ref='DESIGN.md 4/C14'),
    'C15': dict(
        technique='TLC model checking (RoundTrip) + TLC-judged conformance of real printer output re-parsed by the specification grammar',
        text='MC: for every accepted sequence up to MaxLen, Print(result) re-parses to the same print and table. Conformance: str(parse_rule(x)) of exhaustive and random rules with leaves of every built-in kind, list rules, whole rule sets through str(Rules)/Rules.load, RuleDefault.__eq__ pairs; the printed text is tokenised independently and TLC parses it with the specification grammar and compares with the decisions the code gives the original rule.',
        ref='DESIGN.md 4/C15'),
    'C17': dict(
        technique='TLC model checking of the sample-generator document model + TLC-judged conformance of real samples classified line by line',
        text='MC: spec/MC_Sample.tla - generator model (per-default block, three-state description formatter, deprecation blocks) over every kind of default x description/reason shape x operations x scope x exclude-deprecated: no live line, every default stated exactly once. Conformance: real _generate_sample output for hostile descriptions/reasons is classified line by line, loaded with an independent YAML parser as written and with rule lines uncommented, plus the JSON sample; judged by spec/Conf_Sample.tla.',
        ref='DESIGN.md 4/C17',
        note='thin spot: character-level behaviour of textwrap and of the YAML scanner is below the abstraction and exercised only through the real code; TLC decides document structure and the name->check mapping. Trusted: ' + TB),
    'C18': dict(
        technique='TLC model checking of the tools as maps on abstract policy files composed with the loader layering + TLC-judged conformance of real tool runs',
        text='MC: spec/MC_Tools.tla - every main policy file over registered/successor/deprecated/unknown names x {absent, equal to default, different, alias} (+ a directory file) x four default sets: Convert/Upgrade/Generate preserve decisions of surviving names, what Redundant reports is deletable; negative control: the upgrade algorithm as originally shipped is caught on alias files (this found a genuine defect, fixed). Conformance: the enumerated files through the real tools with rule values spelled as strings, textual variants, list-of-lists and with embedded quotes; Enforcers before/after compared; judged by spec/Conf_Tools.tla.',
        ref='DESIGN.md 4/C18'),
    'C19': dict(
        technique='TLC-judged conformance of real oslopolicy-checker runs: TLC derives credentials/target from the token and target files and computes the expected verdict sequence; evaluation semantics model-checked in MC_Alias',
        text='spec/Checker.tla defines the derivation of credentials and target from the token / target files, selection (names with a colon or the requested rule), order and the verdict (PolicyEval evaluation with default rule "default"). Real shell.tool runs over generated policy files, the three sample tokens and generated tokens, is_admin, nested target files, requested rules; stdout parsed into a verdict sequence and judged by spec/Conf_Checker.tla; a real Enforcer.enforce on the same inputs serves as second witness.',
        ref='DESIGN.md 4/C19'),
    'C20': dict(
        technique='TLC model checking of all interleavings of two threads at write granularity (as implemented: counterexamples = known findings; with a lock: holds) + deterministic schedule enumeration on the real code validated by TLC',
        text='MC: spec/MC_LoaderMT.tla - two threads run enforce (load steps at the granularity of every write to the shared rule store, file-rule record and caches; look-up; evaluation) around one edit in every interleaving, thirteen scenarios: with Locked=TRUE AtomicDecision and SettledCorrect hold, as implemented TLC finds the counterexamples. Conformance: every schedule with one or two context switches at every source-line boundary of the reloading call (and of a call started before the edit) is executed on the real code with real threads handed over by events; spec/Conf_LoaderMT.tla computes old and new policy from the loader specification and checks each decision and the settled state; wrong decisions are keyed by scenario/shape/projected rule store so that the windows of the unchanged tree are listed in known_findings.json and any other window is reported.',
        ref='DESIGN.md 4/C20',
        note='preemption at source-line granularity (the quantifier of C20); CPython can also switch inside a line. Trusted: ' + TB),
}

# additions of the last wave (entry points and configuration routes as free variables of the harness)
ADDENDA = {
    'C01': ' A fixed set of sentences is also evaluated by the oslopolicy-checker tool (printed verdict = decision).',
    'C03': ' The default rule is also configured through one opts.set_defaults call naming the policy file; a registered default flagged deprecated_for_removal is a definition like any other.',
    'C06': ' Reference graphs with undefined references are also resolved by the oslopolicy-checker tool (its default rule is "default").',
    'C08': ' The enforce_scope option is also set through opts.set_defaults; authorize is one of the entry points.',
    'C10': ' The named histories also run with a usable default rule (Loader!DecisionsWith): names no layer defines are decided by it, by the long-lived enforcer as by a new one.',
    'C11': ' The table also runs with the configuration supplied by one opts.set_defaults call and with nothing configured (policy.json found by the documented fallback).',
    'C14': ' A return value that is neither True nor False (for rules made of built-in checks) is not a decision and is reported.',
    'C19': ' A third of the runs go through the console entry point shell.main() with a command line.',
}

NOT_YET = 'check not built yet in this round (work in progress; see DESIGN.md section 4 for the plan)'


def main():
    props = [json.loads(l) for l in open(os.path.join(ROOT, 'properties.jsonl'))]
    checks = []
    na = []
    for p in props:
        pid = p['id']
        c = CHECKS.get(pid)
        if not c:
            na.append({'property_id': pid, 'reason': NOT_YET})
            continue
        checks.append({
            'property_id': pid,
            'quick_cmd': '/venv/bin/python checks/run.py %s --tier quick' % pid,
            'thorough_cmd': '/venv/bin/python checks/run.py %s --tier thorough' % pid,
            'evidence_file': '/verif/evidence/%s.json' % pid,
            'replay_cmd_template': 'cat {path}',
            'engine': 'tlc',
            'level_claimed': {'category': 'model_checking', 'text': c['text'] + ADDENDA.get(pid, ''), 'design_ref': c['ref']},
            'level_note': c.get('note', 'bounded: exhaustive only within the stated constants; beyond them per-execution trace validation. Trusted: ' + TB),
            'technique': c['technique'],
        })
    man = {
        'version': 1,
        'setup_cmd': '/venv/bin/python checks/setup.py',
        'hooks': {
            'guard': 'OSLO_POLICY_VERIF',
            'enable': 'no hook lives in /repo: every observable is on the public surface; the harness sets OSLO_POLICY_VERIF=1 for its own run-time wrappers and imports oslo_policy from /repo\'s working tree (sys.path)',
            'baseline_off_cmd': 'cd /repo && env -u OSLO_POLICY_VERIF /venv/bin/python -m pytest -q -p no:cacheprovider',
            'source_commits': [],
            'add_only': True,
        },
        'engines': [{'name': 'tlc', 'path': '/verif/harness/tlc.py', 'serves_properties': [c['property_id'] for c in checks],
                     'kind_free_text': 'TLC 1.8 explicit-state model checker on the TLA+ modules in /verif/spec (exhaustive MC configs, Conf_*/Trace_* modules judging executions recorded from the real code, behaviours replayed into the code)'}],
        'checks': checks,
        'not_applicable': na,
        'notes': 'Exit 0 held / 1 violation (VIOLATION property=<id> replay=<path>) / 2 machinery failure. KNOWN-FINDING lines refer to /verif/known_findings.json. Fix commits in /repo are listed there under "fixed".',
    }
    with open(os.path.join(ROOT, 'MANIFEST.json'), 'w') as f:
        json.dump(man, f, indent=1)
    try:
        import jsonschema
        jsonschema.validate(man, json.load(open('/root/.vp/MANIFEST.schema.json')))
        print('MANIFEST.json valid: %d checks, %d not_applicable' % (len(checks), len(na)))
    except ImportError:
        print('MANIFEST.json written (jsonschema not available here)')


if __name__ == '__main__':
    main()
