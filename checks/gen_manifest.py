#!/venv/bin/python
"""Writes /verif/MANIFEST.json from the table below (and validates it)."""
import json
import os

ROOT = os.path.dirname(os.path.dirname(os.path.abspath(__file__)))

TB = ('TLC 1.8; the TLA+ modules under /verif/spec; the alpha/gamma maps of /verif/harness (renderer, independent '
      'splitter, value encoder, outcome normaliser); Python built-ins str/str.lower/ast.literal_eval/json/yaml as '
      'definitions of string form, case, literal and file syntax')

CHECKS = {
    'C01': dict(
        technique='TLC model checking of the shift-reduce machine vs the documented grammar + TLC-judged conformance of real parse/evaluate executions (code->spec)',
        text='MC: spec/MC_Parser.tla explores every token sequence up to MaxLen through the seven-reducer machine as implemented and checks equality of accept/decision table with the recursive-descent grammar. Conformance: the same complete space plus random expressions up to ~60 tokens with lexical variants and list-of-lists shapes are run through the real parse_rule/Rules.load/Enforcer.enforce under all 2^k assignments; spec/Conf_Parser.tla has TLC compute the grammar table for each recorded input and compare.',
        ref='DESIGN.md 4/C01'),
    'C02': dict(
        technique='TLC model checking (FailClosed) + TLC-judged conformance on rejected sequences, corruptions, garbage and the non-rule value universe',
        text='MC: every token sequence up to MaxLen incl. quoted strings/colon-less checks: what the grammar rejects denies under every assignment. Conformance: the rejected half of that space, corrupted valid rules, word soups, ASCII/Unicode garbage and every JSON/YAML value class through parse_rule/Rules.load/Rules.from_dict+enforce; TLC decides from the token image whether the input is a sentence and which outcomes the statement allows.',
        ref='DESIGN.md 4/C02'),
    'C15': dict(
        technique='TLC model checking (RoundTrip) + TLC-judged conformance of real printer output re-parsed by the specification grammar',
        text='MC: for every accepted sequence up to MaxLen, Print(result) re-parses to the same print and table. Conformance: str(parse_rule(x)) of exhaustive and random rules with leaves of every built-in kind, list rules, whole rule sets through str(Rules)/Rules.load, RuleDefault.__eq__ pairs; the printed text is tokenised independently and TLC parses it with the specification grammar and compares with the decisions the code gives the original rule.',
        ref='DESIGN.md 4/C15'),
}

NOT_YET = 'check not built yet in this round (work in progress; see DESIGN.md section 4 for the plan)'


def main():
    props = [json.loads(l) for l in open(os.path.join(ROOT, 'properties.jsonl'))]
    checks = []
    na = []
    for p in props:
        pid = p['id']
        c = CHECKS.get(pid)
        if not c:
            na.append({'property_id': pid, 'reason': NOT_YET})
            continue
        checks.append({
            'property_id': pid,
            'quick_cmd': '/venv/bin/python checks/run.py %s --tier quick' % pid,
            'thorough_cmd': '/venv/bin/python checks/run.py %s --tier thorough' % pid,
            'evidence_file': '/verif/evidence/%s.json' % pid,
            'replay_cmd_template': 'cat {path}',
            'engine': 'tlc',
            'level_claimed': {'category': 'model_checking', 'text': c['text'], 'design_ref': c['ref']},
            'level_note': c.get('note', 'bounded: exhaustive only within the stated constants; beyond them per-execution trace validation. Trusted: ' + TB),
            'technique': c['technique'],
        })
    man = {
        'version': 1,
        'setup_cmd': '/venv/bin/python checks/setup.py',
        'hooks': {
            'guard': 'OSLO_POLICY_VERIF',
            'enable': 'no hook lives in /repo: every observable is on the public surface; the harness sets OSLO_POLICY_VERIF=1 for its own run-time wrappers and imports oslo_policy from /repo\'s working tree (sys.path)',
            'baseline_off_cmd': 'cd /repo && env -u OSLO_POLICY_VERIF /venv/bin/python -m pytest -q -p no:cacheprovider',
            'source_commits': [],
            'add_only': True,
        },
        'engines': [{'name': 'tlc', 'path': '/verif/harness/tlc.py', 'serves_properties': [c['property_id'] for c in checks],
                     'kind_free_text': 'TLC 1.8 explicit-state model checker on the TLA+ modules in /verif/spec (exhaustive MC configs, Conf_*/Trace_* modules judging executions recorded from the real code, behaviours replayed into the code)'}],
        'checks': checks,
        'not_applicable': na,
        'notes': 'Exit 0 held / 1 violation (VIOLATION property=<id> replay=<path>) / 2 machinery failure. KNOWN-FINDING lines refer to /verif/known_findings.json. Fix commits in /repo are listed there under "fixed".',
    }
    with open(os.path.join(ROOT, 'MANIFEST.json'), 'w') as f:
        json.dump(man, f, indent=1)
    try:
        import jsonschema
        jsonschema.validate(man, json.load(open('/root/.vp/MANIFEST.schema.json')))
        print('MANIFEST.json valid: %d checks, %d not_applicable' % (len(checks), len(na)))
    except ImportError:
        print('MANIFEST.json written (jsonschema not available here)')


if __name__ == '__main__':
    main()
