"""C02 - malformed rules and non-rule values never grant access.

MC  : spec/MC_Parser.tla invariant FailClosed (whatever the grammar rejects
      denies under every assignment) on every token sequence up to MaxLen,
      including quoted strings, constants and colon-less checks.
C2S : the rejected half of the same complete space, random corruptions of
      valid rules, random word soups, and the universe of non-string rule
      values, run through parse_rule / Rules.load (JSON and YAML) /
      Rules.from_dict + Enforcer.enforce; judged by spec/Conf_Parser.tla.
"""
import json

import yaml

from harness import lang, tlc
from checks import parser_common as pc
from checks.c01 import MC_CFG

VALUES = [
    ('null', None), ('false', False), ('zero', 0), ('zero', 0.0), ('number', 5), ('number', 1.5), ('number', -1),
    ('true', True), ('empty_map', {}), ('map', {'a': 'b'}), ('map', {'role:r1': 1}), ('map', {'@': '@'}),
    ('list_with_number', [5]), ('list_with_number', ['@', 5]), ('list_with_number', [[5]]),
    ('list_with_number', [['@'], [5]]), ('list_with_number', [5, '@']), ('list_with_number', [['@', 0]]),
    ('list_with_number', [0, '@']), ('list_with_number', [['@'], 0]),
    ('list_with_null', ['@', None]), ('list_with_null', [[None]]), ('list_with_null', [None]),
    ('list_with_null', [['@', None]]), ('list_with_null', [None, ['@']]),
    ('list_with_bool', [True]), ('list_with_bool', ['@', False]), ('list_with_bool', [[True]]),
    ('list_with_bool', [False, 'role:r1']), ('list_with_bool', [['@'], False]),
    ('list_with_map', [{}]), ('list_with_map', ['@', {}]), ('list_with_map', [{'a': 1}]), ('list_with_map', [[{}]]),
    ('list_with_map', [{}, '@']), ('list_with_map', [{'@': None}]), ('list_with_map', [{'role:r1': True}]), ('list_with_map', [['@'], {'@': 1}]),
    ('list_with_set', [{'@'}]), ('list_with_set', [frozenset(['role:r1'])]),
    ('nested_list', [[['@']]]), ('nested_list', [['@', ['@']]]), ('nested_list', [[[]], '@']),
    ('empty_string', ''), ('empty_list', []), ('at_string', '@'), ('at_list', ['@']), ('at_list', [['@']]),
]


def value_outcome(v, route):
    from oslo_policy import _parser, policy
    try:
        if route == 'parse_rule':
            chk = _parser.parse_rule(v)
            rules = policy.Rules({'p:x': chk})
        elif route == 'load_json':
            rules = policy.Rules.load(json.dumps({'p:x': v}))
        elif route == 'load_yaml':
            rules = policy.Rules.load(yaml.safe_dump({'p:x': v}, default_flow_style=False))
        else:
            rules = policy.Rules.from_dict({'p:x': v})
    except Exception as ex:
        return 'rejected', '%s: %s' % (type(ex).__name__, ex)
    e = pc.enforcer_for({})
    e.set_rules(rules, use_conf=False)
    res = []
    for target, creds in pc.ODD_CREDS:
        try:
            res.append(bool(e.enforce('p:x', dict(target), dict(creds))))
        except Exception as ex:
            return 'crash', '%s: %s' % (type(ex).__name__, ex)
    if all(res):
        return 'allow', ''
    if not any(res):
        return 'deny', ''
    return 'mixed', str(res)


def text_case(toks, text, route='parse', lenv=pc.ROLE_ENV):
    c = pc.record_text(toks, text, route, 'c02', lenv)
    c['extra_allow'] = 0
    if not c['raised']:
        try:
            c['extra_allow'] = pc.extra_allow(text)
        except Exception as ex:
            c['raised'] = 1
            c['_exc'] = '%s: %s' % (type(ex).__name__, ex)
    return c


def key_of(c):
    if c['kind'] == 'value':
        return 'value:%s:%s' % (c['vclass'], c['outcome'])
    if c['raised']:
        return 'text:raises'
    if c['kind'] == 'list':
        return 'list-rule:decision'
    return 'text:non-sentence-allows'


def run(ctx):
    q = ctx.quick
    res = tlc.run('MC_Parser', MC_CFG % (5 if q else 6, 1), coverage=not q, timeout=3000)
    ctx.add_mc('MC_Parser(MaxLen=%d,consts+strings)' % (5 if q else 6), res)

    cases = []
    syms = (lang.LP, lang.RP, lang.AND, lang.OR, lang.NOT, lang.STR, lang.BAD_TOK, lang.LEAF0)
    n_ex = 4 if q else 6
    for toks in lang.all_token_seqs(n_ex, syms):
        cases.append(text_case(toks, lang.render(toks)))
        cases.append(text_case(toks, lang.render(toks, ctx.rng, wide=True, glue_p=0.7)))
    n_exh = len(cases)
    # corruptions of valid rules
    n_cor = 400 if q else 10000
    for i in range(n_cor):
        tree = lang.random_tree(ctx.rng, ctx.rng.choice([2, 3, 5, 8, 12]), ctx.rng.randint(1, 5))
        toks = lang.tree_tokens(tree, ctx.rng)
        for _ in range(ctx.rng.randint(1, 3)):
            toks = lang.corrupt(toks, ctx.rng)
        cases.append(text_case(toks, lang.render(toks, ctx.rng, wide=True, glue_p=0.6)))
    # word soups: random sequences over the full token pool
    pool = [lang.LP, lang.RP, lang.AND, lang.OR, lang.NOT, lang.STR, lang.BAD_TOK, lang.TRUE_TOK, lang.FALSE_TOK,
            lang.LEAF0 + 1, lang.LEAF0 + 2]
    for i in range(300 if q else 8000):
        toks = [ctx.rng.choice(pool) for _ in range(ctx.rng.randint(1, 12))]
        cases.append(text_case(toks, lang.render(toks, ctx.rng, wide=True, glue_p=0.6)))
    # random ASCII / Unicode garbage without colons: every word is a check
    # that is not kind:match, a keyword or parentheses; alpha classifies
    alphabet = 'abzAZ09_-+*/\\\'"!@#$%^&=[]{}<>,.;?|~ \t\n()éßЖλ中'
    n_g = 0
    for i in range(300 if q else 6000):
        text = ''.join(ctx.rng.choice(alphabet) for _ in range(ctx.rng.randint(1, 14)))
        if '%' in text:
            text = text.replace('%', '')
        if not text:
            continue
        toks = lang.alpha(text)
        cases.append(text_case(toks, text))
        n_g += 1
    # whitespace-only texts (not the empty string): no token at all
    for text in [' ', '  ', '\t', '\n', ' \n ', '\r\n', '\u00a0', '\u2003', '\u3000', '\x0b\x0c', ' \t\n\r ']:
        for route in ('parse', 'load', 'enforce'):
            cases.append(text_case([], text, route))
    # quoted words with hostile content: by the lexical rule a word that starts and ends
    # with the same quote is a quoted string whatever is inside - never a check
    import itertools as _it
    core = ["'", '"', '\\', ':', 'a']
    qwords = [''.join(p) for n in range(0, 5 if q else 7) for p in _it.product(core, repeat=n)]
    if not q:
        qalpha = core + ['x', '@', '1']
        qwords += [''.join(p) for n in range(1, 5) for p in _it.product(qalpha, repeat=n)]
    for w in qwords:
        for qt in ("'", '"'):
            text = qt + w + qt
            cases.append(text_case([lang.STR], text))
            if ctx.rng.random() < 0.15:
                cases.append(text_case([lang.NOT, lang.STR], 'not ' + text))
                cases.append(text_case([lang.LEAF0 + 1, lang.OR, lang.STR], 'role:r1 or ' + text))
    # colon-less words carrying quote characters, next to each other: a quote never joins two words
    for w1 in lang.QUOTEY:
        for w2 in lang.QUOTEY:
            for pre, ptext in (([], ''), ([lang.NOT], 'not '), ([lang.TRUE_TOK, lang.OR], '@ or '), ([lang.LEAF0 + 1, lang.AND], 'role:r1 and '),
                               ([lang.NOT, lang.LP], 'not (')):
                if q and ctx.rng.random() < 0.4:
                    continue
                toks = pre + [lang.BAD_TOK, lang.BAD_TOK] + ([lang.RP] if ptext.endswith('(') else [])
                text = ptext + w1 + ctx.rng.choice([' ', '  ', '\t']) + w2 + (')' if ptext.endswith('(') else '')
                cases.append(text_case(toks, text, ctx.rng.choice(['parse', 'parse', 'load', 'enforce'])))
    # a parenthesis glued to the wrong end of a word is part of the word (a colon-less check), not a parenthesis
    B, LPp, RPp, NT = lang.BAD_TOK, lang.LP, lang.RP, lang.NOT
    for toks, text in (([B, RPp], '@( )'), ([NT, B, RPp], 'not !( )'), ([B], '@('), ([B, RPp], 'x( )'), ([LPp, B], '( )@'), ([LPp, NT, B], '(not )!'),
                       ([LPp, B, RPp], '( )@)'), ([B, LPp], ')@ ('), ([B, B], '@( )@'), ([B, RPp, lang.OR, lang.TRUE_TOK], '!( ) or @'),
                       ([lang.TRUE_TOK, lang.AND, B, RPp], '@ and @( )'), ([LPp, B, RPp, RPp], '(@( ))')):
        for route in ('parse', 'load', 'enforce'):
            cases.append(text_case(toks, text, route))
    n_text = len(cases)
    # list rules whose members are not kind:match (the empty string, constant signs glued together,
    # keywords, parentheses - nothing is tokenized inside a list member): each behaves as '!'
    B, L1, TT = lang.BAD_TOK, lang.LEAF0 + 1, lang.TRUE_TOK
    for w in ['', '!@', '@!', '@@', '!!', 'nocolon', "'", '"', '(', ')', 'not', 'and', 'or', "''", '""', "'x'"]:
        for outer in ([[B]], [[TT, B]], [[B, TT]], [[B], [TT]], [[L1], [B]], [[B, L1]], [[B], [B]], [[L1, B], [L1]]):
            if q and ctx.rng.random() < 0.35:
                continue
            val = [[(w if t == B else lang.core_text(t)) for t in inner] for inner in outer]
            if len(val[0]) == 1 and ctx.rng.random() < 0.5:
                val[0] = val[0][0]
            c = pc.record_list(outer, val, ctx.rng.choice(['parse', 'load', 'enforce']), 'c02')
            cases.append(c)
    # a list member that IS kind:match must not be taken for malformed: one whose match contains further colons
    colon_env = lang.LeafEnv(('colon',), 0)
    for outer in ([[L1]], [[L1, TT]], [[B], [L1]], [[L1], [lang.LEAF0 + 2]], [[L1, lang.LEAF0 + 2]]):
        for route in ('parse', 'load', 'enforce'):
            val = [[('nocolon' if t == B else lang.core_text(t, None, colon_env.text)) for t in inner] for inner in outer]
            cases.append(pc.record_list(outer, val, route, 'c02', colon_env))
    n_text = len(cases)
    # non-string rule values
    for vclass, v in VALUES:
        routes = ['parse_rule', 'from_dict', 'load_json', 'load_yaml']
        for route in routes:
            if route == 'load_json' and isinstance(v, float) and v != v:
                continue
            out, how = value_outcome(v, route)
            cases.append({'kind': 'value', 'want': 'c02', 'vclass': vclass, 'outcome': out,
                          '_value': v, '_route': route, '_how': how})
    # whole documents: a value must be parsed for what it is, whatever else the document holds
    # (a list rule followed by the string that spells its str(), the same value twice, ...)
    from oslo_policy import policy as _policy
    for first in ([], ['@'], [['@']], [['role:r1']], (), ['role:r1', 'role:r2']):
        for second in (str(first), str(list(first)), repr(first), json.dumps(list(first))):
            for loader in ('from_dict', 'load'):
                doc = {'a:first': list(first) if loader == 'load' else first, 'b:second': second}
                try:
                    rules = _policy.Rules.from_dict(doc) if loader == 'from_dict' else _policy.Rules.load(json.dumps(doc))
                    e = pc.enforcer_for({})
                    e.set_rules(rules, use_conf=False)
                    allow = any(e.enforce('b:second', dict(t), dict(c)) for t, c in pc.ODD_CREDS)
                    out = 'allow' if allow else 'deny'
                except Exception as ex:
                    out = 'crash'
                try:
                    e1 = pc.enforcer_for({'b:second': second})
                    alone = 'allow' if any(e1.enforce('b:second', dict(t), dict(c)) for t, c in pc.ODD_CREDS) else 'deny'
                except Exception:
                    alone = 'crash'
                cases.append({'kind': 'ctx', 'want': 'c02', 'alone': alone, 'indoc': out, '_value': second,
                              '_how': 'as value of b:second in the document %r loaded with %s' % (doc, loader)})
    bad = pc.judge(ctx, cases)
    for c in bad:
        if c['kind'] == 'ctx':
            ctx.violation('value-depends-on-document', 'the rule value %r decides %s alone but %s %s' % (c['_value'], c['alone'], c['indoc'], c['_how']), pc.describe(c))
            continue
        if c['kind'] == 'value':
            what = 'rule value %r of class %s is %s (must be rejected at load or deny)' % (c['_value'], c['vclass'], c['outcome']) \
                if c['vclass'] not in ('empty_string', 'empty_list', 'at_string', 'at_list') else \
                'rule value %r must always allow, outcome %s' % (c['_value'], c['outcome'])
        elif c['raised']:
            what = 'loading or evaluating a rule string raised %s' % c.get('_exc')
        elif c['kind'] == 'list':
            what = 'a list rule does not decide as the OR of the ANDs of its members (a member that is not kind:match is "!", one that is, is that check)'
        else:
            what = 'a string that is not a sentence of the rule language grants access'
        ctx.violation(key_of(c), what, pc.describe(c))
    ctx.exhaustive = True
    ctx.cover.update({'exhaustive_token_sequences_up_to': n_ex, 'exhaustive_cases': n_exh, 'corruptions': n_cor,
                      'garbage_strings': n_g, 'text_cases': n_text, 'value_cases': len(cases) - n_text,
                      'value_classes': sorted({v[0] for v in VALUES})})
    for c in cases[:2] + cases[n_exh:n_exh + 3] + cases[n_text - 3:n_text] + cases[-3:]:
        ctx.sample({k: c[k] for k in c if k in ('kind', 'toks', '_text', '_value', 'table', 'vclass', 'outcome', '_route', 'extra_allow', 'alone', 'indoc')})
    ctx.assumptions += [
        'whether a string is a sentence is decided by the recursive-descent grammar in spec/PolicyParser.tla on the token image produced by the independent splitter (harness/lang.py)',
        'garbage strings avoid ":" and "%" so that every word is a keyword, parenthesis, quoted string or colon-less check',
    ]
