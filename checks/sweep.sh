#!/bin/bash
# seed sweep of the quick tier (false-alarm hunting on the unchanged tree)
# usage: [PROPS="C01 C02"] checks/sweep.sh "2 3 4" [tier]
tier=${2:-quick}
for s in $1; do
  for p in ${PROPS:-C01 C02 C03 C04 C05 C06 C07 C08 C09 C10 C11 C12 C13 C14 C15 C16 C17 C18 C19 C20}; do
    out=$(VERIF_SEED=$s VERIF_EVIDENCE_DIR=/tmp/sweep_ev VERIF_REPLAY_DIR=/tmp/sweep_rp/$s /venv/bin/python checks/run.py $p --tier $tier 2>&1)
    rc=$?
    echo "seed=$s $p rc=$rc $(echo "$out" | tail -1)"
    if [ $rc -ne 0 ]; then echo "$out" | grep -v KNOWN | head -20; fi
  done
done
