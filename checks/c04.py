"""C04 - role:X passes exactly when the credentials hold role X, ignoring
letter case.

MC  : spec/MC_Leaves.tla - every role list / X over a small abstract
      alphabet with an explicit case map: the operational RoleCheck
      (substitute, fold, membership) equals the sentence of C04.
C2S : enumerated and random role names over mixed-case ASCII, digits,
      punctuation and non-ASCII letters with one-to-one case maps, literal
      and placeholder X, through Enforcer.enforce on a rule that is the check
      and on rules that nest it; judged by spec/Conf_Eval.tla with the case
      map taken from Python's str.lower.
"""
import itertools
import json

from harness import ev, tlc
from checks import eval_common as ec

MC_CFG = """SPECIFICATION Spec
CONSTANTS MaxName = %d
 Mode = "role"
INVARIANT RoleOpIsDecl
INVARIANT RoleFoldsBothSides
CHECK_DEADLOCK FALSE
"""

ALPH_ASCII = ['a', 'A', 'b', 'B', 'z', 'Z', '1', '-', '_', '.', ':', ',', ';', '+', '=', '/', '@', '#', '!', '&', '*', '~', '|', '^', '$', '?', '<', '>', '[', ']', '{', '}', "'", '"', '\\']
ALPH_WIDE = ['ａ', 'Ａ', 'ｚ', 'Ｚ', 'é', 'É', 'ü', 'Ü', 'ñ', 'Ñ', 'ж', 'Ж', 'λ', 'Λ', 'ø', 'Ø', 'å', 'Å', 'ç', 'Ç', 'д', 'Д']


def names(rng, alph, n, maxlen=4):
    out = []
    for _ in range(n):
        out.append(''.join(rng.choice(alph) for _ in range(rng.randint(1, maxlen))))
    return out


def casevar(s, rng):
    return ''.join(ch.upper() if rng.random() < 0.5 else ch.lower() for ch in s)


def run(ctx):
    q = ctx.quick
    res = tlc.run('MC_Leaves', MC_CFG % (2 if q else 3), coverage=not q, timeout=3000)
    ctx.add_mc('MC_Leaves(role)', res)
    rng = ctx.rng
    cases = []

    def add(x_parts, target, creds, nest):
        leaf = ev.role(*x_parts)
        if nest == 'self':
            rules, name = [('p:x', leaf)], 'p:x'
        elif nest == 'not':
            rules, name = [('p:x', ev.Not(leaf))], 'p:x'
        elif nest == 'and':
            rules, name = [('p:x', ev.And(ev.T, leaf))], 'p:x'
        elif nest == 'or':
            rules, name = [('p:x', ev.Or(ev.F, leaf))], 'p:x'
        else:
            rules, name = [('p:x', ev.rule('r')), ('r', leaf)], 'p:x'
        cases.append(ec.enforce_case(rules, {'by': 'name', 'name': name}, target, creds, dflt=('opt', None), want='c04'))

    # exhaustive over a small alphabet: names of length <= 2
    small = ['a', 'A', 'b', 'é', 'É', '1']
    pool = [''.join(p) for n in (1, 2) for p in itertools.product(small, repeat=n)]
    nest_cycle = itertools.cycle(['self', 'self', 'not', 'and', 'or', 'alias'])
    sub = pool if not q else [p for i, p in enumerate(pool) if i % 3 == 0 or len(p) == 1]
    for x in sub:
        for r in sub:
            add([x], {}, {'roles': [r]}, next(nest_cycle))
    # the empty role name (length-0 boundary): `role:` / a placeholder filled with '' equals the role ''
    for roles in ([''], ['', 'a'], ['a'], [], None):
        creds = {'user_id': 'u'} if roles is None else {'roles': roles, 'user_id': 'u'}
        for nest in ('self', 'not', 'and', 'or', 'alias'):
            add([], {}, creds, nest)
            add([ev.ph('k')], {'k': ''}, creds, nest)
            add([ev.ph('k'), ev.ph('j')], {'k': '', 'j': ''}, creds, nest)
            add([ev.ph('k')], {}, creds, nest)
    # role names that the TEXT syntax cannot spell (blanks, an edge parenthesis) are legal in the list
    # syntax, where a member is one check and nothing is tokenized
    from oslo_policy import policy as _policy
    for x in ['ops(eu)', 'x)', '(y', 'a b', 'Dev Ops ', 'r))', 'and', 'not x']:
        for form in ('bare', 'nested', 'bare_or', 'pair'):
            value = {'bare': ['role:' + x], 'nested': [['role:' + x]], 'bare_or': ['role:zz', 'role:' + x], 'pair': [['role:' + x, '@']]}[form]
            tree = ev.Or(ev.role('zz'), ev.role(x)) if form == 'bare_or' else ev.role(x)
            for route in ('from_dict', 'load'):
                e = ev.make_enforcer({}, ('opt', None))
                e.set_rules(_policy.Rules.from_dict({'p:x': value}) if route == 'from_dict' else _policy.Rules.load(json.dumps({'p:x': value})), use_conf=False)
                for roles in ([x], [x.upper()], ['other', x.swapcase()], ['other'], []):
                    cases.append(ec.enforce_case([('p:x', tree)], {'by': 'name', 'name': 'p:x'}, {}, {'roles': roles}, dflt=('opt', None), want='c04',
                                                 enforcer=e, extra={'_list_value': value}))
    # any whitespace around the rule text (an indented YAML scalar, a trailing newline) is not part of the check
    for x in ['Admin', 'admin', 'Ädmin', '%(r)s']:
        leaf = ev.role(ev.ph('r')) if x.startswith('%') else ev.role(x)
        for pre, post in ((' ', ''), ('\t', ''), ('\n  ', '\n'), ('', '  '), ('  ', ' \t')):
            for body in ('role:' + x, 'not role:' + x, '(role:' + x + ')'):
                text = pre + body + post
                tree = ev.Not(leaf) if body.startswith('not') else leaf
                for route in ('rules_obj', 'main_file'):
                    e = ev.make_enforcer({'p:x': text}, ('opt', None), via=route)
                    for roles in (['admin'], ['ADMIN'], ['ädmin'], ['other'], []):
                        cases.append(ec.enforce_case([('p:x', tree)], {'by': 'name', 'name': 'p:x'}, {'r': 'ADMIN'}, {'roles': roles}, dflt=('opt', None),
                                                     want='c04', enforcer=e, extra={'_texts': {'p:x': text}, '_via': route}))
    # a list-syntax rule with an empty alternative next to the role check: whatever an empty alternative means,
    # credentials that hold the role are allowed
    for x in ['Admin', 'ops']:
        for value in ([[], ['role:' + x]], ['', 'role:' + x], [['role:' + x], []], [[], [], ['role:zz'], ['role:' + x]], ['role:zz', '', ['role:' + x]]):
            for route in ('from_dict', 'load'):
                e = ev.make_enforcer({}, ('opt', None))
                e.set_rules(_policy.Rules.from_dict({'p:x': value}) if route == 'from_dict' else _policy.Rules.load(json.dumps({'p:x': value})), use_conf=False)
                for roles in ([x], [x.upper(), 'other'], [x.swapcase()]):
                    cases.append(ec.enforce_case([('p:x', ev.role(x))], {'by': 'name', 'name': 'p:x'}, {}, {'roles': roles}, dflt=('opt', None), want='c04',
                                                 enforcer=e, extra={'_list_value': value}))
    n_exh = len(cases)
    # random: role lists, placeholders, missing keys, missing roles
    alph = ALPH_ASCII + ALPH_WIDE
    for i in range(600 if q else 20000):
        nm = names(rng, alph, rng.randint(0, 4))
        x = rng.choice(nm) if nm and rng.random() < 0.6 else names(rng, alph, 1)[0]
        x = casevar(x, rng) if rng.random() < 0.7 else x
        mode = rng.random()
        target = {}
        if mode < 0.45:
            parts = [x]
        elif mode < 0.8:
            key = rng.choice(['k', 'Role_Name', 'target.role', 'K'])
            parts = [ev.ph(key)]
            if rng.random() < 0.8:
                target[key] = x
            else:
                target[rng.choice(['other', key.lower(), key.upper()])] = x     # missing (or differently cased) key
                if key in target:
                    pass
        else:
            key = 'k'
            cut = rng.randint(0, len(x))
            parts = [x[:cut], ev.ph(key)] if cut else [ev.ph(key)]
            target[key] = x[cut:]
            if rng.random() < 0.2:
                target = {}
        if rng.random() < 0.15:
            # several placeholders in one template, with literal separators
            segs = [x[i:i + max(1, len(x) // 3)] for i in range(0, len(x), max(1, len(x) // 3))] or [x]
            parts, target = [], {}
            for si, sg in enumerate(segs):
                if rng.random() < 0.6:
                    key = 'k%d' % si
                    parts.append(ev.ph(key))
                    target[key] = sg
                else:
                    parts.append(sg)
            if rng.random() < 0.15 and target:
                target.pop(sorted(target)[0])          # one of the keys is missing: denies
        parts = [p for p in parts if p != '']
        if not parts:
            parts = [x]
        r = rng.random()
        lookalike = None
        if rng.random() < 0.12:
            # look-alike letters are different letters: a role spelled with the fullwidth (or ASCII)
            # counterparts of X's letters is another role
            FW = {chr(c): chr(c - 0x41 + 0xFF21) for c in range(0x41, 0x5B)}
            FW.update({chr(c): chr(c - 0x61 + 0xFF41) for c in range(0x61, 0x7B)})
            BACK = {v: k for k, v in FW.items()}
            lk = ''.join(FW.get(ch, BACK.get(ch, ch)) for ch in x)
            if lk != x:
                lookalike = lk
        if lookalike is not None:
            creds = {'roles': [lookalike] + nm[:1], 'user_id': 'u'}
        elif r < 0.1:
            creds = {}
        elif r < 0.2:
            creds = {'roles': []}
        else:
            creds = {'roles': nm, 'user_id': 'u'}
        # an empty target with a role spelled like the un-substituted template: still a missing key
        if any(not isinstance(p_, str) for p_ in parts) and rng.random() < 0.15:
            target = {}
            creds = {'roles': [ev.template_text([ev.lit(p_) if isinstance(p_, str) else p_ for p_ in parts]), casevar('%(k)s', rng), 'x']}
        # non-string target values are substituted by their string form
        if target and rng.random() < 0.05:
            k0 = list(target)[0]
            target[k0] = rng.choice([1, True, None])
        add(parts, target, creds, rng.choice(['self', 'self', 'not', 'and', 'or', 'alias']))
    # sessions: one long-lived enforcer and ONE credentials dict reused across
    # calls, its role list edited in place between calls (stale state in the
    # check or the enforcer shows as a per-call mismatch)
    n_sess = 0
    for s_i in range(40 if q else 800):
        nm = names(rng, alph, 3)
        x = casevar(rng.choice(nm), rng)
        tree = rng.choice([ev.role(x), ev.Or(ev.role(x), ev.role(casevar(nm[0], rng))), ev.Not(ev.role(x)),
                           ev.role(ev.ph('k'))])
        rules = [('p:x', tree)]
        enf = ev.make_enforcer({n: ev.rule_text(t) for n, t in rules}, ('opt', None))
        live = {'roles': list(nm), 'user_id': 'u'}
        for step in range(6):
            op = rng.randrange(6)
            if op == 0 and 'roles' in live:
                live['roles'].append(rng.choice(nm + [x]))
            elif op == 1 and live.get('roles'):
                live['roles'].pop(rng.randrange(len(live['roles'])))
            elif op == 2 and 'roles' in live:
                del live['roles'][:]
            elif op == 3:
                live['roles'] = [casevar(x, rng)]
            elif op == 4:
                live.pop('roles', None)
            else:
                live['roles'] = names(rng, alph, 2)
            target = {'k': casevar(x, rng)} if rng.random() < 0.8 else {}
            cases.append(ec.enforce_case(rules, {'by': 'name', 'name': 'p:x'}, target, dict(live, roles=list(live['roles'])) if 'roles' in live else dict(live),
                                         dflt=('opt', None), want='c04', creds_obj=live, enforcer=enf, extra={'_session': s_i, '_step': step}))
            n_sess += 1
    # the same with a RequestContext object whose role list is re-assigned between calls
    from oslo_context import context as _context
    for s_i in range(15 if q else 300):
        nm = names(rng, alph, 3)
        x = casevar(rng.choice(nm), rng)
        rules = [('p:x', rng.choice([ev.role(x), ev.Not(ev.role(x)), ev.Or(ev.role(x), ev.F)]))]
        enf = ev.make_enforcer({n: ev.rule_text(t) for n, t in rules}, ('opt', None))
        cobj = _context.RequestContext(user_id='u', roles=list(nm), project_id='p', request_id='req-00000000-0000-0000-0000-000000000001')
        for step in range(4):
            cobj.roles = rng.choice([[casevar(x, rng)], names(rng, alph, 2), [], list(nm), nm[:1] + [x]])
            cases.append(ec.enforce_case(rules, {'by': 'name', 'name': 'p:x'}, {}, dict(cobj.to_policy_values()), dflt=('opt', None), want='c04',
                                         creds_obj=cobj, enforcer=enf, extra={'_session': 'ctx%d' % s_i, '_step': step}))
            n_sess += 1
    # non-interference: the same check object evaluated by two calls at once
    n_conc = 0
    for leaf, a, b in [(ev.role(ev.ph('k')), ({'k': 'admin'}, {'roles': ['Admin']}), ({'k': 'member'}, {'roles': ['member']})),
                       (ev.role(ev.ph('k')), ({'k': 'admin'}, {'roles': ['member']}), ({'k': 'member'}, {'roles': ['member']})),
                       (ev.role('ops'), ({}, {'roles': ['OPS']}), ({}, {'roles': ['dev']})),
                       (ev.role('t-', ev.ph('k')), ({'k': 'a'}, {'roles': ['T-A']}), ({'k': 'b'}, {'roles': ['t-b']}))]:
        for nest in ('self', 'not'):
            cs = ec.interference_cases([('p:x', leaf if nest == 'self' else ev.Not(leaf))], 'p:x', a, b, 'c04', rng, q)
            n_conc += len(cs)
            cases += cs
    ctx.cover['concurrent_call_cases'] = n_conc
    bad = ec.judge(ctx, cases)
    for c in bad:
        ctx.violation('role-check:' + ('raises' if c['obs']['o'] == 'raise' else 'decision'),
                      'role:X decision differs from "X (after substitution) equals one of the role names, ignoring case"', ec.describe(c))
    ctx.cover.update({'exhaustive_pairs_small_alphabet': n_exh, 'random_cases': len(cases) - n_exh - n_sess, 'session_calls': n_sess,
                      'alphabet': ''.join(alph)})
    for c in cases[:2] + cases[n_exh:n_exh + 6]:
        ctx.sample(ec.sample(c))
    ctx.assumptions += ['case folding is Python str.lower restricted to characters with a one-to-one lower case; the map is handed to TLC per case',
                        'role names contain no whitespace, "%" or edge parentheses']
