#!/venv/bin/python
"""Confirm a candidate seeded change and keep it under /verif/seeded/<id>/.

  adopt_seed.py <id> <property> <patch.diff> <demo.py> <meta.json>

In a scratch worktree of /repo's HEAD (outside /repo and /verif): the demo
must pass on the unchanged tree; with the patch applied the repository's test
suite must give exactly the baseline result (345 passed) and the demo must
fail.  Only then are patch.diff, the demonstration and meta.json written.
"""
import json
import os
import re
import shutil
import subprocess
import sys
import tempfile

ROOT = os.path.dirname(os.path.dirname(os.path.abspath(__file__)))


def sh(cmd, cwd, env=None):
    p = subprocess.run(cmd, cwd=cwd, env=env, stdout=subprocess.PIPE, stderr=subprocess.STDOUT, shell=isinstance(cmd, str))
    return p.returncode, p.stdout.decode('utf-8', 'replace')


def main():
    sid, prop, patch, demo, meta = sys.argv[1:6]
    wt = tempfile.mkdtemp(prefix='verif_seed_')
    os.rmdir(wt)
    env = dict(os.environ, PYTHONPATH=wt, PYTHONDONTWRITEBYTECODE='1')
    ran = {}
    try:
        subprocess.check_call(['git', '-C', '/repo', 'worktree', 'add', '-q', '--detach', wt, 'HEAD'])
        rc, out = sh(['/venv/bin/python', os.path.abspath(demo)], wt, env)
        ran['demo_on_unchanged_tree'] = 'exit %d' % rc
        if rc != 0:
            print('REJECT %s: demo fails on the unchanged tree\n%s' % (sid, out[-1500:]))
            return 1
        rc, out = sh(['git', 'apply', '--3way', os.path.abspath(patch)], wt)
        if rc != 0:
            print('REJECT %s: patch does not apply\n%s' % (sid, out[-1500:]))
            return 1
        rc, out = sh(['/venv/bin/python', '-m', 'pytest', '-q', '-p', 'no:cacheprovider', 'oslo_policy/tests'], wt, env)
        m = re.search(r'(\d+) failed, (\d+) passed', out) or re.search(r'()(\d+) passed', out)
        ran['test_suite_with_patch'] = m.group(0) if m else out[-300:]
        failed = [l for l in out.splitlines() if l.startswith('FAILED')]
        if not m or int(m.group(2)) != 345 or any('test_reloading_cache_with_permission_denied' not in l for l in failed):
            print('REJECT %s: test suite differs from baseline with the patch: %s\n%s' % (sid, ran['test_suite_with_patch'], '\n'.join(failed)))
            return 1
        rc, out = sh(['/venv/bin/python', os.path.abspath(demo)], wt, env)
        ran['demo_with_patch'] = 'exit %d: %s' % (rc, out.strip().splitlines()[-1][:300] if out.strip() else '')
        if rc == 0:
            print('REJECT %s: demo passes with the patch' % sid)
            return 1
        rc, diff = sh(['git', 'diff', 'HEAD'], wt)
        dst = os.path.join(ROOT, 'seeded', sid)
        os.makedirs(dst, exist_ok=True)
        with open(os.path.join(dst, 'patch.diff'), 'w') as f:
            f.write(diff)
        shutil.copy(demo, os.path.join(dst, 'demo.py'))
        try:
            src = json.load(open(meta))
        except Exception:
            src = {}
        head = subprocess.check_output(['git', '-C', '/repo', 'rev-parse', '--short', 'HEAD']).decode().strip()
        json.dump({'id': sid, 'property': prop, 'summary': src.get('summary', ''), 'needs': src.get('needs', ''),
                   'origin': 'independent sub-agent given only the property text and a scratch worktree',
                   'confirmed_against_repo_head': head, 'confirmed': ran, 'detected_by': []},
                  open(os.path.join(dst, 'meta.json'), 'w'), indent=1)
        print('ADOPTED %s (%s)' % (sid, ran))
        return 0
    finally:
        subprocess.call(['git', '-C', '/repo', 'worktree', 'remove', '--force', wt])
        shutil.rmtree(wt, ignore_errors=True)
        subprocess.call(['git', '-C', '/repo', 'worktree', 'prune'])


if __name__ == '__main__':
    sys.exit(main())
